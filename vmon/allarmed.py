"""Development tool (not a registered check): run the workload of check Cxx with ALL generic wrapper-level oracles armed,
to hunt for monitors that fire on workloads they were not written for (false alarms or defects in untargeted areas).

usage: ./vcheck-all Cxx [quick|thorough-shard]"""

from __future__ import annotations

import json
import sys
import warnings

import numpy as np

from .core import Budget, Recorder
from .main import load_check


def main(argv):
    prop = argv[0]
    tier = argv[1] if len(argv) > 1 else "quick"
    warnings.simplefilter("ignore")
    import logging

    logging.getLogger().addHandler(logging.NullHandler())
    from .attach import Hub, install

    rec = Recorder(prop, tier, 0)
    hub = Hub(rec)
    install(hub)
    from .oracles import arith, dimset, index as oidx, inv, perm, reduce as red, stock as S
    from .checks import c02, c11

    arith.register(hub)
    red.register(hub)
    oidx.register(hub, ("C05", "C06"))
    inv.register(hub, ("C13", "C15"))
    dimset.register(hub)
    S.register_c08(hub)
    S.register_compute(hub, ("C03", "C09"))
    c02.register(hub)
    c11.register_to_df(hub)
    perm.register(hub, exhaustive=False, rng=np.random.default_rng(0), max_pairs=4)
    mod = load_check(prop)
    # the check's own registration would double-register oracles: neutralise the register functions it calls
    for m in (arith, red, oidx, inv, dimset, perm):
        m.register = lambda *a, **k: None
    S.register_c08 = lambda *a, **k: None
    S.register_compute = lambda *a, **k: None
    c02.register = lambda *a, **k: None
    c11.register_to_df = lambda *a, **k: None
    mod.run(rec, hub, tier, 0, 0, 1 if tier == "quick" else 16, Budget(float(argv[2]) if len(argv) > 2 else 60))
    print({k: v for k, v in sorted(rec.events.items())})
    for k, v in sorted(rec.violations.items()):
        print("VIOL", k, v["count"])
        print("    ", json.dumps(v["witnesses"][0]["witness"])[:500])
    print("inconclusive:", rec.inconclusive_reasons[:3])


if __name__ == "__main__":
    main(sys.argv[1:])
