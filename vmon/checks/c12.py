"""C12 — data import refuses incomplete or inconsistent data unless told otherwise."""

from __future__ import annotations

import os
import shutil
import tempfile

import numpy as np
import pandas as pd

from ..core import case_nprng
from ..drivers import frames as F
from ..model import Snap

LEVEL = "fault_enumeration"
BUDGET = {"quick": 55, "thorough": 420}
SHARDS = {"quick": 1, "thorough": 16}
RULE = (
    "fault injection at the input: clean long/wide frames (ground truth known) receive every single fault kind (dropped row, duplicated "
    "row, conflicting duplicate, row relabelled to an unknown item, added row with an unknown item, blanked value, dropped dimension "
    "column, junk value column) at first / middle / last / random position and random combinations of 2-3 faults, under all 4 combinations "
    "of allow_missing_values / allow_extra_values, through from_df, set_values_from_df, CSVParameterReader and ExcelParameterReader.  The "
    "expected outcome is derived from the FINAL frame by an independent reader: duplicate label combination, missing multi-item column, "
    "several unmatched value columns => Exception always; unknown items => Exception unless allow_extra (then ignored); missing "
    "combination or NaN => Exception unless allow_missing (then 0); every other entry under its labels; after an Exception the pre-filled "
    "target is bit-identical.  Configuration signature = (route, layout, fault kinds, positions, flags)"
)
M = "import-fault-oracle"
MT = "target-untouched-after-refusal"


def read_final(df, spec, info):
    """independent reader of the final (faulty) frame -> ('raise', why) | ('rows', list[(labels, value)], unknown_rows)"""
    names = {}
    for c, sp in info["dimcol_of"].items():
        names[c] = sp
    cols = list(df.columns)
    dimcols = [c for c in cols if c in names]
    k = len(spec)
    present_dims = {names[c][0] for c in dimcols}
    wide = info["layout"] == "wide"
    wd = None
    if wide:
        wd = [s for s in spec if s[0] == info["wide_dim"]][0]
        present_dims.add(wd[0])
    for s in spec:
        if s[0] not in present_dims and len(s[2]) > 1:
            return ("raise", "missing column of a multi-item dimension")
    other = [c for c in cols if c not in dimcols]
    if wide:
        junk = [c for c in other if c not in wd[2]]
        if junk:
            return ("raise", "value columns that match no dimension")
        if set(other) != set(wd[2]):
            return ("skip", "item column missing from a wide table")
    else:
        if len(other) != 1:
            return ("raise", "several value columns that match no dimension")
    rows = []
    for _, row in df.iterrows():
        lab = {}
        for c in dimcols:
            lab[names[c][0]] = row[c]
        for s in spec:
            if s[0] not in lab and not (wide and s[0] == wd[0]):
                lab[s[0]] = s[2][0]
        if wide:
            for it in wd[2]:
                l2 = dict(lab)
                l2[wd[0]] = it
                rows.append((tuple(l2[s[0]] for s in spec), row[it]))
        else:
            rows.append((tuple(lab[s[0]] for s in spec), row[other[0]]))
    return ("rows", rows)


def expectation(spec, rows, am, ae):
    known, unknown = [], []
    for lab, v in rows:
        ok = all(_isin(lab[j], spec[j][2]) for j in range(len(spec)))
        (known if ok else unknown).append((lab, v))
    ukeys = [tuple(map(str, l)) for l, _ in unknown]
    if len(set(ukeys)) != len(ukeys):
        return ("skip", "duplicates among rows with unknown items (not judged)")
    kkeys = [tuple(map(str, l)) for l, _ in known]
    if len(set(kkeys)) != len(kkeys):
        return ("raise", "duplicated label combination")
    if unknown and not ae:
        return ("raise", "unknown item without allow_extra_values")
    n_total = 1
    for s in spec:
        n_total *= len(s[2])
    vals = {}
    for lab, v in known:
        vals[tuple(spec[j][2][_index(lab[j], spec[j][2])] for j in range(len(spec)))] = v
    missing = n_total - len(vals)
    nan = sum(1 for v in vals.values() if v != v)
    if (missing or nan) and not am:
        return ("raise", "missing combination or empty value without allow_missing_values")
    return ("array", {kk: (0.0 if v != v else float(v)) for kk, v in vals.items()})


def _isin(x, items):
    try:
        return x in items or (isinstance(x, str) and any(str(i) == x for i in items)) or (not isinstance(x, str) and any(i == x for i in items))
    except Exception:
        return False


def _index(x, items):
    for j, i in enumerate(items):
        if i == x or str(i) == str(x):
            return j
    raise KeyError(x)


def one(rec, hub, seed, tier, i, tmpdir):
    fd = hub.fd
    rng = case_nprng(seed, "c12.fault", 0, i)
    route = ["from_df", "set_values_from_df", "from_df", "csv", "set_values_from_df", "xlsx", "from_csv"][i % 7]
    if tier == "quick" and route == "xlsx" and (i // 6) % 3:
        route = "from_df"
    text = route in ("csv", "xlsx", "from_csv")
    layout = "wide" if rng.random() < 0.35 else "long"
    spec, dims = F.make_dims(fd, rng, allow_untyped_int=False)
    k = len(spec)
    values = F.make_values(rng, dims.shape)
    if route != "xlsx" and all(s_[3] is not int for s_ in spec) and rng.random() < 0.25 and values.size:
        # an infinite entry (an unbounded stock, a marker) is a present entry like any other (dimensions typed int are left out:
        # there the converter's probing of the value column fails on infinities, the territory of finding F24)
        values.reshape(-1)[int(rng.integers(0, values.size))] = [np.inf, -np.inf][int(rng.integers(0, 2))]
    recs = F.long_records(spec, values)
    wide_dim = None
    if layout == "wide":
        cands = [j for j in range(k) if len(spec[j][2]) > 1]
        wide_dim = cands[int(rng.integers(0, len(cands)))]
    header = str(rng.choice(["names", "letters", "mixed"]))
    df, info = F.render(spec, recs, rng, layout=layout, wide_dim=wide_dim, header=header, in_index="none", vname="value", omit_single=bool(rng.random() < 0.3),
                        perm_rows=True, perm_cols=True)
    df = df.reset_index(drop=True)
    # faults
    nf = 1 if rng.random() < 0.6 else int(rng.integers(2, 4))
    kinds = []
    if rng.random() < 0.06:
        nf = 0
    detail = []
    for _ in range(nf):
        fk = F.FAULTS[int(rng.integers(0, len(F.FAULTS)))]
        where = str(rng.choice(["first", "middle", "last", "random"]))
        out, det = F.inject(df, spec, info, fk, rng, where)
        if out is None:
            continue
        df = out
        kinds.append(fk)
        detail.append((fk, where))
    if not text and len(df) and rng.random() < 0.45:
        # the row labels of a frame whose dimensions are all in columns mean nothing (frames glued together with pd.concat keep
        # repeated labels, filtered frames keep gaps): plain integers outside the range of calendar years
        n_ = len(df)
        df = df.copy()
        df.index = [np.arange(n_) // 2, np.zeros(n_, dtype=np.int64), rng.permutation(n_), np.arange(n_) + 100000, np.arange(n_) % 3][int(rng.integers(0, 5))].astype(np.int64)
    final = read_final(df, spec, info)
    if text and len(df) and len(df.columns) and bool(df.apply(lambda col: col.map(lambda v: v is None or v == "" or (isinstance(v, float) and v != v))).all(axis=1).any()):
        # a row without a single filled cell is no data row in a FILE (a workbook does not store it, a CSV reader skips the blank line):
        # what the in-memory frame says about it (e.g. "the same empty row twice") does not describe what the file holds
        rec.skip(M, "file routes: the frame has a completely blank row, which a file does not carry as a row")
        return
    for am in (False, True):
        for ae in (False, True):
            if final[0] == "skip":
                rec.skip(M, final[1])
                continue
            exp = final if final[0] == "raise" else expectation(spec, final[1], am, ae)
            if exp[0] == "skip":
                rec.skip(M, exp[1])
                continue
            sig = f"{route}|{layout}|{sorted(kinds)}|{[w for _, w in detail]}|am={am}|ae={ae}"
            rec.event(M, sig=sig, cls=f"{route}|{layout}|{'+'.join(sorted(set(kinds))) or 'clean'}|am={int(am)},ae={int(ae)}|expect={exp[0]}",
                      sample={"route": route, "layout": layout, "faults": detail, "allow_missing": am, "allow_extra": ae, "expected": exp[0] if exp[0] != "raise" else f"raise: {exp[1]}",
                              "columns": [str(c) for c in df.columns]})
            # run
            pre = None
            target = None
            got, exc = None, None
            try:
                if route == "from_df":
                    got = fd.FlodymArray.from_df(dims=dims, df=df.copy(), allow_missing_values=am, allow_extra_values=ae) if i % 3 else fd.FlodymArray.from_df(dims, df.copy(), am, ae)
                elif route == "set_values_from_df":
                    tk = (i // 6) % 4
                    if tk == 0:
                        target = fd.FlodymArray(dims=dims, values=np.full(dims.shape, -7.25))
                    elif tk == 1:
                        target = fd.FlodymArray.full(dims, 0)  # integer zeros: the imported (fractional) values must survive
                    elif tk == 2:
                        target = fd.Parameter(dims=dims, values=np.full(dims.shape, 3, dtype=np.int32), name="par")
                    else:
                        target = fd.FlodymArray(dims=dims, values=np.full(dims.shape, 1.5, dtype=np.float32))
                    pre = Snap(target)
                    target.set_values_from_df(df.copy(), allow_missing_values=am, allow_extra_values=ae) if i % 4 else target.set_values_from_df(df.copy(), am, ae)
                    got = target
                elif route == "csv":
                    path = os.path.join(tmpdir, f"p{i}.csv")
                    df.to_csv(path, index=False)
                    reader = fd.CSVParameterReader(parameter_files={"par": path}, allow_missing_values=am, allow_extra_values=ae)
                    if i % 2:
                        fd.CSVParameterReader(parameter_files={"par": path}, allow_missing_values=not am, allow_extra_values=not ae)  # another reader, other flags, alive at the same time
                    got = reader.read_parameter_values("par", dims)
                elif route == "from_csv":
                    # the whole assembly path: definition + dimension files + one parameter file, flags forwarded by from_csv
                    path = os.path.join(tmpdir, f"p{i}.csv")
                    df.to_csv(path, index=False)
                    dim_files = {}
                    for l_, n_, it_, dt_ in spec:
                        dp = os.path.join(tmpdir, f"d{i}_{l_}.csv")
                        pd.DataFrame({0: list(it_)}).to_csv(dp, index=False, header=False)
                        dim_files[n_] = dp
                    definition = fd.MFADefinition(
                        dimensions=[fd.DimensionDefinition(name=n_, letter=l_, dtype=(dt_ or str)) for l_, n_, it_, dt_ in spec], processes=["sysenv"], flows=[], stocks=[],
                        parameters=[fd.ParameterDefinition(name="par", dim_letters=tuple(s_[0] for s_ in spec))])
                    mfa = fd.MFASystem.from_csv(definition, dimension_files=dim_files, parameter_files={"par": path}, allow_missing_parameter_values=am, allow_extra_parameter_values=ae)
                    got = mfa.parameters["par"]
                else:
                    path = os.path.join(tmpdir, f"p{i}.xlsx")
                    df.to_excel(path, index=False, sheet_name="data")
                    reader = fd.ExcelParameterReader(parameter_files={"par": path}, parameter_sheets={"par": "data"}, allow_missing_values=am, allow_extra_values=ae)
                    if i % 2:
                        fd.ExcelParameterReader(parameter_files={"par": path}, parameter_sheets={"par": "data"}, allow_missing_values=not am, allow_extra_values=not ae)  # another reader, other flags
                    got = reader.read_parameter_values("par", dims)
            except Exception as e:
                exc = e
            w = {"route": route, "layout": layout, "faults": detail, "allow_missing": am, "allow_extra": ae, "columns": [str(c) for c in df.columns], "n_rows": len(df),
                 "dims": [(s[0], s[2]) for s in spec], "frame_head": df.head(6).astype(str).to_dict("split")["data"]}
            fsig = "+".join(sorted(set(kinds))) or "clean"
            if exp[0] == "raise":
                if exc is None:
                    rec.violation(M, f"accepted-faulty-data:{exp[1]}", dict(w, expected=exp[1]))
                if target is not None:
                    rec.event(MT, sig=sig, cls=f"target|{fsig}")
                    if not Snap(target).same(pre):
                        rec.violation(MT, "target-partially-filled-after-refused-import", dict(w))
                continue
            if exc is not None:
                rec.violation(M, f"refused-acceptable-data:{fsig}:am={int(am)},ae={int(ae)}", dict(w, exc=repr(exc)[:400]))
                continue
            expected = np.zeros(dims.shape)
            for lab, v in exp[1].items():
                expected[tuple(spec[j][2].index(lab[j]) for j in range(k))] = v
            if not (isinstance(got.values, np.ndarray) and got.values.shape == expected.shape and np.array_equal(got.values, expected)):
                bad = np.argwhere(got.values != expected)[:1].tolist() if isinstance(got.values, np.ndarray) and got.values.shape == expected.shape else None
                rec.violation(M, f"entry-not-from-the-row-with-its-labels:{fsig}:am={int(am)},ae={int(ae)}", dict(w, first_bad_index=bad))


def reader_reuse(rec, hub, seed, i, tmpdir):
    """one reader object, one path: the file is rewritten between reads and every read must reflect the file as it is now"""
    fd = hub.fd
    rng = case_nprng(seed, "c12.reuse", 0, i)
    spec, dims = F.make_dims(fd, rng, allow_untyped_int=False)
    xlsx = i % 2 == 1
    path = os.path.join(tmpdir, f"reuse{i}." + ("xlsx" if xlsx else "csv"))
    reader = (fd.ExcelParameterReader(parameter_files={"par": path}, parameter_sheets={"par": "data"}) if xlsx else fd.CSVParameterReader(parameter_files={"par": path}))
    info0 = None
    for step in range(4):
        values = F.make_values(rng, dims.shape)
        recs = F.long_records(spec, values)
        df, info = F.render(spec, recs, rng, layout="long", header="names", in_index="none", vname="value", omit_single=False)
        df = df.reset_index(drop=True)
        faulty = step in (1, 3) and rng.random() < 0.8
        if faulty:
            out, det = F.inject(df, spec, info, str(rng.choice(["drop_row", "dup_row", "blank_value", "unknown_item"])), rng, "random")
            if out is None:
                faulty = False
            else:
                df = out
        if xlsx:
            df.to_excel(path, index=False, sheet_name="data")
        else:
            df.to_csv(path, index=False)
        rec.event(M, sig=f"reuse|{'xlsx' if xlsx else 'csv'}|step={step}|faulty={faulty}", cls=f"reader-reuse|{'xlsx' if xlsx else 'csv'}|{'faulty' if faulty else 'clean'}-after-rewrite")
        try:
            got = reader.read_parameter_values("par", dims)
            exc = None
        except Exception as e:
            got, exc = None, e
        w = {"route": "reader reuse", "xlsx": xlsx, "step": step, "file_is_faulty_now": faulty}
        if faulty and exc is None:
            rec.violation(M, "reused-reader-accepted-a-file-that-is-faulty-now", w)
        elif not faulty and exc is not None:
            rec.violation(M, "reused-reader-refused-a-file-that-is-fine-now", dict(w, exc=repr(exc)[:300]))
        elif not faulty and not np.array_equal(got.values, values):
            rec.violation(M, "reused-reader-returned-values-of-an-earlier-file-content", w)


def reader_several_parameters(rec, hub, seed, i, tmpdir):
    """one reader object asked for SEVERAL parameters at once (read_parameters): the call is refused because the second file is faulty;
    the user repairs that file - meanwhile the FIRST file has changed too (new values, or a fault of its own) - and asks again: every
    call reflects all files as they are then"""
    fd = hub.fd
    rng = case_nprng(seed, "c12.several", 0, i)
    spec, dims = F.make_dims(fd, rng, allow_untyped_int=False)
    paths = {n: os.path.join(tmpdir, f"several{i}_{n}.csv") for n in ("first", "second")}
    reader = fd.CSVParameterReader(parameter_files=dict(paths))
    defs = [fd.ParameterDefinition(name=n, dim_letters=tuple(dims.letters)) for n in ("first", "second")]

    def write(name, faulty):
        values = F.make_values(rng, dims.shape)
        df, info = F.render(spec, F.long_records(spec, values), rng, layout="long", header="names", in_index="none", vname="value", omit_single=False)
        df = df.reset_index(drop=True)
        if faulty:
            out, det = F.inject(df, spec, info, str(rng.choice(["drop_row", "dup_row", "blank_value", "unknown_item"])), rng, "random")
            if out is None:
                return None
            df = out
        df.to_csv(paths[name], index=False)
        return values

    plan = [(False, True), (bool(rng.integers(0, 2)), False), (False, False)]  # (first file faulty, second file faulty) per call
    for step, (f1, f2) in enumerate(plan):
        v1, v2 = write("first", f1), write("second", f2)
        if v1 is None or v2 is None:
            return
        faulty = f1 or f2
        rec.event(M, sig=f"several|step={step}|{f1}|{f2}", cls=f"reader-reuse|several parameters in one call|{'a faulty file' if faulty else 'all files clean'}")
        try:
            got, exc = reader.read_parameters(defs, dims), None
        except Exception as e:
            got, exc = None, e
        w = {"route": "read_parameters on a reused reader", "call": step + 1, "first_file_faulty_now": f1, "second_file_faulty_now": f2}
        if faulty and exc is None:
            rec.violation(M, "reused-reader-accepted-a-file-that-is-faulty-now", w)
        elif not faulty and exc is not None:
            rec.violation(M, "reused-reader-refused-a-file-that-is-fine-now", dict(w, exc=repr(exc)[:300]))
        elif not faulty and not (np.array_equal(got["first"].values, v1) and np.array_equal(got["second"].values, v2)):
            rec.violation(M, "reused-reader-returned-values-of-an-earlier-file-content", w)


def run(rec, hub, tier, seed, shard, nshards, budget):
    rec.require(M, 100)
    rec.require(MT, 10)
    n = 1300 if tier == "quick" else 5000
    tmpdir = tempfile.mkdtemp(prefix="vmon-c12-")
    try:
        for kk in range(n):
            if not budget.ok():
                break
            i = kk * nshards + shard
            rec.set_case(driver="c12.fault", seed=seed, tier=tier, shard=shard, nshards=nshards, idx=i)
            one(rec, hub, seed, tier, i, tmpdir)
            if kk % 25 == 0:
                rec.set_case(driver="c12.reuse", seed=seed, tier=tier, shard=shard, nshards=nshards, idx=i)
                reader_reuse(rec, hub, seed, i, tmpdir)
                rec.set_case(driver="c12.several", seed=seed, tier=tier, shard=shard, nshards=nshards, idx=i)
                reader_several_parameters(rec, hub, seed, i, tmpdir)
    finally:
        shutil.rmtree(tmpdir, ignore_errors=True)


def replay(rec, hub, case):
    tmpdir = tempfile.mkdtemp(prefix="vmon-c12-")
    try:
        rec.set_case(**case)
        if case["driver"] == "c12.reuse":
            reader_reuse(rec, hub, case["seed"], case["idx"], tmpdir)
        elif case["driver"] == "c12.several":
            reader_several_parameters(rec, hub, case["seed"], case["idx"], tmpdir)
        else:
            one(rec, hub, case["seed"], case.get("tier", "quick"), case["idx"], tmpdir)
    finally:
        shutil.rmtree(tmpdir, ignore_errors=True)
