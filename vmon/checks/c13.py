"""C13 — arrays always have the shape of their dimensions; failed calls change nothing."""

from __future__ import annotations

from .. import gen
from ..core import case_nprng, interleave
from ..drivers import index as drv
from ..drivers import program
from ..oracles import inv

PIGGY = True  # thorough tier also runs the repository tests / howtos / examples under these monitors
LEVEL = "fault_enumeration"
PROPS = ("C13",)
BUDGET = {"quick": 50, "thorough": 300}
SHARDS = {"quick": 1, "thorough": 16}
RULE = (
    "global monitor on every exit (normal or raising) of every wrapped public call: each FlodymArray among arguments, results and "
    "the driver's pool has values.shape == dims.shape over distinct letters; after an exception every argument equals its deep "
    "snapshot; constructors / set_values / whole-array assignment given an ndarray of another shape must raise; stock constructors "
    "given arrays or lifetime models with other dims or time not first must raise.  Fault enumeration: random programs over a pool of "
    "arrays (constructors, operators, reductions, slicing reads/writes, conversions, stack/split, stocks) with ~30% deliberately "
    "ill-formed steps (wrong shapes, unknown items/dimensions, non-superset casts, faulty frames, mismatching stock arrays), plus the "
    "index driver's whole-array and error cases; the whole pool is re-checked after every step.  Configuration signature = (operation, "
    "exit kind, exception type / shape pair)"
)


def one(rec, hub, seed, tier, kind, i):
    rng = case_nprng(seed, f"c13.{kind}", 0, i)
    if kind == "program":
        letters = "abcd" if i % 3 else "abc"
        program.run_program(rec, hub, rng, 60 if tier == "quick" else 120, letters=letters, ill_rate=0.3, props=PROPS)
    else:
        fd = hub.fd
        letters = "abcd"
        U = gen.universe(fd, dict(zip(letters, gen.LENGTH_PATTERNS[4][i % 4])))
        sub = tuple(rng.permutation(list(letters))[: i % 5])
        drv.do_whole_array(hub, U, sub, rng)
        drv.do_errors(hub, U, sub, rng)


def run(rec, hub, tier, seed, shard, nshards, budget):
    inv.register(hub, PROPS)
    rec.require(program.MP13, 100)
    n_prog = 220 if tier == "quick" else 1500
    work = interleave([("program", i) for i in range(n_prog)], [("whole", i) for i in range(40 if tier == "quick" else 200)])
    for w, (kind, i) in enumerate(work):
        if not budget.ok():
            break
        idx = i * nshards + shard
        rec.set_case(driver=f"c13.{kind}", seed=seed, tier=tier, shard=shard, nshards=nshards, idx=idx)
        one(rec, hub, seed, tier, kind, idx)
    rec.info("programs_run", n_prog)


def replay(rec, hub, case):
    inv.register(hub, PROPS)
    rec.set_case(**case)
    one(rec, hub, case["seed"], case.get("tier", "quick"), case["driver"].split(".")[1], case["idx"])
