"""C04 — results do not depend on the storage order of dimensions."""

from __future__ import annotations

import itertools

import numpy as np
import pandas as pd

from .. import gen
from ..core import case_nprng
from ..drivers import dsm
from ..drivers import index as idrv
from ..oracles import perm
from ..oracles.perm import labelled, rebuild, same_entries
from ..model import Snap

PIGGY = True  # thorough tier also runs the repository tests / howtos / examples under these monitors
LEVEL = "exploration"
BUDGET = {"quick": 55, "thorough": 420}
SHARDS = {"quick": 1, "thorough": 16}
RULE = (
    "relational monitor (permutation shadow): for every observed operation the wrapper rebuilds each participating array (operands, "
    "pre-declared target, assignment source, cast target) in every other storage order with transposed values, replays the same public "
    "call on the real code with monitoring paused and demands the same entries under the same labels (== for dyadic values, 1e-9 normwise "
    "for reals), the same raise/return outcome, and a result order that follows the documented rule for the permuted operands.  Covers + - "
    "* / ** min max, sum_to sum_over cast_to get_shares_over cumsum, x[key] for every key form, t[key] = src / t[...] = src with target and "
    "source permuted independently, split / flodym_array_stack, to_df (all layouts) and from_df (array dims permuted against a fixed frame "
    "and frame columns permuted against fixed dims), and lifetime models given parameter arrays in every order.  Thorough: all k! x k! "
    "order pairs up to 4 dims; quick: 3-d exhaustive, 4-d sampled (24).  Length patterns include all-equal lengths, where a silent "
    "transposition keeps the shape.  Configuration signature = (operation, operand dims and shapes, arguments)"
)

PAIRS3 = [("abc", "abc"), ("abc", "cab"), ("ab", "bc"), ("abc", "b"), ("ab", "ba"), ("a", "bc"), ("abc", ""), ("bc", "abc"), ("cb", "ab")]
PAIRS4 = [("abcd", "dcba"), ("abcd", "bd"), ("ab", "cd"), ("abc", "bcd"), ("dab", "abcd"), ("abcd", "abcd")]
BIN = [lambda x, y: x + y, lambda x, y: x - y, lambda x, y: x * y, lambda x, y: x / y, lambda x, y: x.minimum(y), lambda x, y: x.maximum(y), lambda x, y: x**y]
BINK = ["add", "sub", "mul", "div", "min", "max", "pow"]


def ops_for(hub, U, letters, rng, regime, tier):
    """perform one of each operation configuration; the permutation oracles replay them in other orders"""
    fd = hub.fd
    pairs = PAIRS3 + (PAIRS4 if len(letters) >= 4 else [])
    if tier == "thorough" and len(letters) == 3:
        subs = gen.ordered_subsets("abc")
        pairs = [("".join(a), "".join(b)) for a in subs for b in subs]
    for la, lb in pairs:
        if not set(la + lb) <= set(letters):
            continue
        for f, kind in zip(BIN, BINK):
            vx, vy = gen.values_pair(regime, kind, rng, gen.shape_of(U, la), gen.shape_of(U, lb))
            x = fd.FlodymArray(dims=gen.dimset(fd, U, la), values=vx)
            y = fd.FlodymArray(dims=gen.dimset(fd, U, lb), values=vy)
            try:
                f(x, y)
            except Exception:
                pass
    full = tuple(letters)
    x = gen.Fresh(hub, fd.FlodymArray(dims=gen.dimset(fd, U, full), values=gen.values_one(regime, rng, gen.shape_of(U, full), layout=True)))
    k = len(full)
    # reductions
    for keep in [full[::-1], full[1:], (full[-1], full[0]), (full[1],), ()]:
        for f in (lambda: x.sum_to(keep), lambda: x.sum_to(tuple(U[l].name for l in keep)), lambda: x.sum_over(keep), lambda: x.get_shares_over(keep)):
            try:
                f()
            except Exception:
                pass
    for l in full:
        try:
            x.cumsum(l)
        except Exception:
            pass
    for spec in [full[:2], full[:2][::-1], (full[-1], full[0]), full[1:], (U[full[0]].name, full[1])]:
        for f in (lambda: x.sum_values_over(spec), lambda: x.sum_values_to(spec)):
            try:
                f()
            except Exception:
                pass
    # chains on one object: use the operand, derive a result whose dimension positions differ, then address the result
    xr = x.new()
    try:
        xr.cumsum(full[-1])
        xr[{full[0]: U[full[0]].items[0]}]
    except Exception:
        pass
    for derived in (lambda: xr.sum_to(full[::-1]), lambda: xr.sum_over((full[0],)), lambda: xr + xr.sum_over((full[0],)), lambda: xr.sum_to(full[1:] + full[:1])):
        try:
            y = derived()
        except Exception:
            continue
        yl = tuple(y.dims.letters)
        for f in ([lambda: y.cumsum(yl[0]), lambda: y.cumsum(yl[-1]), lambda: y[{yl[-1]: U[yl[-1]].items[0]}], lambda: y[{yl[0]: U[yl[0]].items[-1]}],
                   lambda: y.copy().__setitem__({yl[0]: U[yl[0]].items[0]}, 1.5), lambda: y.sum_to(yl[::-1])]):
            try:
                f()
            except Exception:
                pass
    sub = gen.Fresh(hub, fd.FlodymArray(dims=gen.dimset(fd, U, full[1:][::-1]), values=gen.values_one(regime, rng, gen.shape_of(U, full[1:][::-1]), layout=True)))
    for tgt in (full, full[::-1], full[1:] + full[:1]):
        try:
            sub.cast_to(gen.dimset(fd, U, tgt))
        except Exception:
            pass
    try:
        sub.cast_to(gen.dimset(fd, U, full[:1]))  # lacks source dims -> must raise in every order
    except Exception:
        pass
    # slice reads / writes with every key form
    assigns = [("1",) + ("-",) * (k - 1), ("-",) * (k - 1) + ("1",), ("S",) + ("-",) * (k - 2) + ("1",), ("1", "-", "S") + ("-",) * (k - 3), ("S", "S") + ("-",) * (k - 2),
               ("-", "1", "S") + ("1",) * (k - 3), ("-",) * k]
    for assign in assigns:
        for spelling in ("letter", "name", "tuple"):
            if spelling == "tuple" and "S" in assign:
                continue
            key = idrv.build_key(fd, U, full, assign, rng, "rand", spelling)
            try:
                x[key]
            except Exception:
                pass
    wassigns = assigns + [("L",) + ("-",) * (k - 2) + ("1",), ("L", "S") + ("-",) * (k - 2), ("1", "-", "L") + ("-",) * (k - 3), ("L", "-", "1") + ("-",) * (k - 3), ("1", "L") + ("-",) * (k - 2)] * 2
    for assign in wassigns:
        key = idrv.build_key(fd, U, full, assign, rng, "rand", "letter")
        kd = key if isinstance(key, dict) else {}
        rd = idrv.region_dims(fd, U, full, kd)
        t = fd.FlodymArray(dims=gen.dimset(fd, U, full), values=gen.values_one("dyadic", rng, gen.shape_of(U, full)))
        try:
            t.copy()[key] = 2.5
        except Exception:
            pass
        # a bare array of the region's shape (axes = the target's dimensions in its storage order, singly addressed ones dropped)
        rshape = tuple(len(d.items) if not isinstance(d, tuple) else len(d[2]) for d in rd)
        if rshape:
            try:
                t.copy()[key] = gen.values_one("dyadic", rng, rshape)
            except Exception:
                pass
        if any(isinstance(d, tuple) for d in rd):
            continue
        dims = list(rd)
        extra = [U[l] for l in full if l not in [d.letter for d in dims] and l.upper() not in [d.letter for d in dims]]
        for variant in ("exact", "extra", "lacking"):
            dd = list(dims)
            if variant == "extra" and extra:
                dd = dd + extra[:1]
            if variant == "lacking":
                if not dd:
                    continue
                dd = dd[1:]
            dd = dd[::-1]
            ds = fd.DimensionSet(dim_list=dd)
            src = fd.FlodymArray(dims=ds, values=gen.values_one(regime if regime != "tagged" else "dyadic", rng, ds.shape))
            try:
                t.copy()[key] = src
            except Exception:
                pass
    # keys that must be refused (unknown items, an item that two dimensions share, ...): refused in every storage order
    idrv.do_errors(hub, U, full, rng)
    shared = fd.Dimension(letter="y", name="cohort", items=list(U[full[0]].items)[:1] + ["c-1990", "c-2000"])
    both = fd.FlodymArray(dims=fd.DimensionSet(dim_list=[U[full[0]], shared, U[full[1]]]), values=gen.values_one("dyadic", rng, (len(U[full[0]].items), 3, len(U[full[1]].items))))
    it_shared, it_other = U[full[0]].items[0], U[full[1]].items[-1]
    for key in ((it_shared, it_other), (it_other, it_shared), (it_shared,), ("c-1990", it_shared), (U[full[0]].items[-1], "c-2000") if len(U[full[0]].items) > 1 else ("c-2000",)):
        try:
            both[key]
        except Exception:
            pass
        try:
            both.copy()[key] = 4.5
        except Exception:
            pass
    # split / stack
    for l in full[:2]:
        try:
            x.split(l)
        except Exception:
            pass
    if k == 3:
        free = [l for l in "abcd" if l not in full]
    else:
        free = []
    base_l = full[:3] if k > 3 else full[:2]
    nd = U[[l for l in letters if l not in base_l][0]] if [l for l in letters if l not in base_l] else None
    if nd is not None:
        parts = [fd.FlodymArray(dims=gen.dimset(fd, U, base_l), values=gen.values_one("dyadic", rng, gen.shape_of(U, base_l))) for _ in nd.items]
        try:
            fd.flodym_array_helper.flodym_array_stack(parts, nd)
        except Exception:
            pass


MF = "frames-and-lifetime-orders"


def frames_and_lifetime(rec, hub, U, letters, rng, exhaustive):
    """driver-level relational checks: to_df / from_df and lifetime parameters in every storage order"""
    fd = hub.fd
    full = tuple(letters)
    x = fd.FlodymArray(dims=gen.dimset(fd, U, full), values=gen.values_one("tagged", rng, gen.shape_of(U, full)))
    xs = Snap(x)
    truth = labelled(xs)
    perms = list(itertools.permutations(full))
    if not exhaustive and len(perms) > 8:
        perms = [perms[i] for i in sorted(rng.choice(len(perms), size=8, replace=False).tolist())]

    def frame_map(df, names_to_letters):
        """independent reader of a long frame with named columns -> {frozenset{(letter,item)}: value}"""
        out = {}
        d = df.reset_index() if not isinstance(df.index, pd.RangeIndex) or df.index.name else df
        for _, row in d.iterrows():
            key = frozenset((names_to_letters[c], row[c]) for c in d.columns if c in names_to_letters)
            out[key] = row["value"]
        return out

    n2l = {U[l].name: l for l in full}
    base_df = x.to_df(index=False)
    for p in perms:
        xp = rebuild(fd, xs, p)
        # to_df in the three layouts
        for kw in (dict(index=True), dict(index=False), dict(index=False, sparse=True)):
            df = xp.to_df(**kw)
            got = frame_map(df, n2l)
            rec.event(MF, sig=f"to_df|{p}|{sorted(kw.items())}", cls="to_df|" + ("sparse" if kw.get("sparse") else "dense"))
            exp = truth if not kw.get("sparse") else {k: v for k, v in truth.items() if v != 0}
            if got.keys() != exp.keys() or any(got[k] != exp[k] for k in exp):
                rec.violation(MF, "to_df:rows-differ-between-storage-orders", {"order": list(p), "layout": kw})
        for col in full[:2]:
            dfw = xp.to_df(index=False, dim_to_columns=col)
            back = fd.FlodymArray.from_df(dims=x.dims, df=dfw)
            rec.event(MF, sig=f"to_df-wide|{p}|{col}", cls="to_df|wide")
            if not np.array_equal(back.values, x.values):
                rec.violation(MF, "to_df:wide-layout-differs-between-storage-orders", {"order": list(p), "columns_dim": col})
        # from_df: array dims permuted against a fixed frame
        yp = fd.FlodymArray.from_df(dims=xp.dims, df=base_df)
        rec.event(MF, sig=f"from_df-dims|{p}", cls="from_df|dims-permuted")
        d = same_entries(truth, labelled(yp), True, 1.0)
        if d is not None:
            rec.violation(MF, "from_df:entries-depend-on-the-array's-storage-order", {"order": list(p), "diff": list(d[1:])})
        # frame columns permuted against fixed dims
        cols = [U[l].name for l in p]
        if rng.random() < 0.5:
            cols = cols + ["value"]
        else:
            cols = cols[:1] + ["value"] + cols[1:]
        df2 = base_df[cols].sample(frac=1.0, random_state=int(rng.integers(0, 2**31)))
        y2 = fd.FlodymArray.from_df(dims=x.dims, df=df2)
        rec.event(MF, sig=f"from_df-cols|{p}", cls="from_df|columns-permuted")
        if not np.array_equal(y2.values, x.values):
            rec.violation(MF, "from_df:entries-depend-on-the-frame's-column-order", {"columns": cols})
        # one dimension column without its name (recognised through its items; it stands first), the others named
        for anon in ((U[p[0]].name, U[p[-1]].name) if len(full) >= 2 else ()):
            df4 = base_df.rename(columns={anon: "first"})
            df4 = df4[["first"] + [c for c in df4.columns if c not in ("first", "value")] + ["value"]]
            rec.event(MF, sig=f"from_df-mixed-header|{p}", cls="from_df|one-column-identified-by-items")
            try:
                y5 = fd.FlodymArray.from_df(dims=xp.dims, df=df4)
                d = same_entries(truth, labelled(y5), True, 1.0)
                if d is not None:
                    rec.violation(MF, "from_df:entries-depend-on-the-array's-storage-order:column-identified-by-items", {"order": list(p), "unnamed_column_holds": anon, "diff": list(d[1:])})
            except Exception as e:
                rec.violation(MF, "from_df:raised-for-a-column-identified-by-items", {"order": list(p), "exc": repr(e)[:200]})
        # every dimension in the rows' MultiIndex, the levels WITHOUT names (each level is recognised through its items)
        if len(full) >= 2:
            df5 = base_df.set_index([U[l].name for l in full])
            df5.index.names = [None] * len(full)
            rec.event(MF, sig=f"from_df-unnamed-multiindex|{p}", cls="from_df|unnamed MultiIndex levels")
            try:
                y6 = fd.FlodymArray.from_df(dims=xp.dims, df=df5)
                d = same_entries(truth, labelled(y6), True, 1.0)
                if d is not None:
                    rec.violation(MF, "from_df:entries-depend-on-the-array's-storage-order:unnamed-multiindex", {"order": list(p), "diff": list(d[1:])})
            except Exception as e:
                rec.violation(MF, "from_df:raised-for-an-unnamed-multiindex-in-one-storage-order", {"order": list(p), "exc": repr(e)[:200]})
        # the same with rows missing (allow_missing_values): present rows under their labels, absent ones zero - in every order of the
        # array's dimensions and of the frame's columns; also the sparse export of the permuted array read back
        if len(base_df) > 2:
            drop = sorted(rng.choice(len(base_df), size=max(1, len(base_df) // 3), replace=False).tolist())
            part = base_df.drop(index=base_df.index[drop])
            truth_part = dict(truth)
            for r_ in drop:
                row = base_df.iloc[r_]
                truth_part[frozenset((n2l[c], row[c]) for c in base_df.columns if c in n2l)] = 0.0
            for what, dims_, frame in (("dims-permuted", xp.dims, part), ("columns-permuted", x.dims, part[cols].sample(frac=1.0, random_state=int(rng.integers(0, 2**31))))):
                rec.event(MF, sig=f"from_df-missing|{what}|{p}", cls=f"from_df|rows-missing|{what}")
                try:
                    y3 = fd.FlodymArray.from_df(dims=dims_, df=frame, allow_missing_values=True)
                except Exception as e:
                    rec.violation(MF, f"from_df:raised-for-an-incomplete-frame-although-allowed:{what}", {"order": list(p), "exc": repr(e)[:200]})
                    continue
                d = same_entries(truth_part, labelled(y3), True, 1.0)
                if d is not None:
                    rec.violation(MF, f"from_df:incomplete-frame-entries-depend-on-storage-or-column-order:{what}", {"order": list(p), "columns": list(map(str, frame.columns)), "diff": list(d[1:])})
            x0 = fd.FlodymArray(dims=xp.dims, values=np.where(np.isin(np.arange(xp.values.size).reshape(xp.values.shape) % 3, [0]), 0.0, xp.values))
            try:
                y4 = fd.FlodymArray.from_df(dims=x.dims, df=x0.to_df(index=bool(rng.integers(0, 2)), sparse=True), allow_missing_values=True)
                rec.event(MF, sig=f"sparse-roundtrip|{p}", cls="from_df|sparse-export-of-permuted-array")
                d = same_entries(labelled(x0), labelled(y4), True, 1.0)
                if d is not None:
                    rec.violation(MF, "from_df:sparse-export-read-back-differs-between-storage-orders", {"order": list(p), "diff": list(d[1:])})
            except Exception as e:
                rec.violation(MF, "from_df:raised-on-the-sparse-export-of-a-permuted-array", {"order": list(p), "exc": repr(e)[:200]})
    # lifetime models: parameters as arrays in every order
    tdim = fd.Dimension(letter="t", name="time", items=[2000, 2002, 2005, 2006, 2010])
    extra = [U[l] for l in full[:2]]
    dims = fd.DimensionSet(dim_list=[tdim] + extra)
    pl = [tdim] + extra
    mean_full = rng.uniform(2.0, 9.0, size=dims.shape)
    std_full = mean_full * rng.uniform(0.2, 0.6, size=dims.shape)
    for cls_name, names in (("NormalLifetime", ("mean", "std")), ("LogNormalLifetime", ("mean", "std")), ("WeibullLifetime", ("weibull_shape", "weibull_scale")), ("FixedLifetime", ("mean",))):
        # parameters over every non-empty SUBSET of the model's dimensions (a time-independent parameter over all the other dimensions,
        # one over the time dimension and one label dimension, ...) in every storage order
        for keep in [c_ for r_ in range(len(pl), 0, -1) for c_ in itertools.combinations(range(len(pl)), r_)]:
            ref = None
            drop = tuple(ax for ax in range(len(pl)) if ax not in keep)
            for p in itertools.permutations(range(len(keep))):
                pd_ = fd.DimensionSet(dim_list=[pl[keep[i]] for i in p])
                kw = {}
                for n, v in zip(names, (mean_full if names[0] != "weibull_shape" else std_full / mean_full * 5 + 0.5, std_full if names[0] != "weibull_shape" else mean_full)):
                    v_k = np.mean(v, axis=drop) if drop else v
                    kw[n] = fd.FlodymArray(dims=pd_, values=np.ascontiguousarray(np.transpose(v_k, p)))
                lm = getattr(fd, cls_name)(dims=dims, time_letter="t", **kw)
                sf = np.array(lm.sf)
                rec.event(MF, sig=f"lifetime|{cls_name}|{keep}|{p}", cls=f"lifetime-params|{cls_name}|{len(keep)} of {len(pl)} dims{'' if 0 in keep else ', time-independent'}")
                if ref is None:
                    ref = sf
                elif not np.array_equal(ref, sf):
                    rec.violation(MF, f"lifetime:survival-table-depends-on-parameter-storage-order:{cls_name}", {"parameter_dims": [pl[keep[i]].letter for i in p], "model_dims": [d_.letter for d_ in pl], "max_diff": float(np.max(np.abs(ref - sf)))})


def plan(tier):
    if tier == "quick":
        return [("abc", pat) for pat in gen.LENGTH_PATTERNS[3]] + [("abcd", pat) for pat in gen.LENGTH_PATTERNS[4][:2]]
    return [("abc", pat) for pat in gen.LENGTH_PATTERNS[3]] + [("abcd", pat) for pat in gen.LENGTH_PATTERNS[4]]


def one(rec, hub, seed, tier, ci, regime):
    fd = hub.fd
    letters, pat = plan(tier)[ci]
    U = gen.universe(fd, dict(zip(letters, pat)), rng=case_nprng(seed, "c04.universe", 0, f"{ci}.{regime}"))
    rng = case_nprng(seed, "c04.ops", 0, f"{ci}.{regime}")
    ops_for(hub, U, letters, rng, regime, tier)
    if regime == "tagged":
        frames_and_lifetime(rec, hub, U, letters, rng, exhaustive=(tier == "thorough" or len(letters) <= 3))


def run(rec, hub, tier, seed, shard, nshards, budget):
    rng = case_nprng(seed, "c04.perm-sampling", shard, 0)
    perm.register(hub, exhaustive=(tier == "thorough"), rng=rng, max_pairs=24 if tier == "quick" else 576)
    rec.require(MF, 20)
    cases = [(ci, reg) for ci in range(len(plan(tier))) for reg in ("tagged", "dyadic", "real", "wide")]  # wide: entries many orders of magnitude apart
    rec.exhaustive_spaces["all storage orders of every participating array (k! x k! pairs for binary operations and assignment) up to 4 dimensions, per operation configuration"] = tier == "thorough"
    rec.exhaustive_spaces["all storage orders for 3-dimensional operands"] = True
    from ..oracles import big

    rec.set_case(driver="c04.big", seed=seed, tier=tier, shard=shard, nshards=nshards, idx=shard, regime="-")
    with hub.pause():  # direct comparison of two storage orders (the wrapper's shadow only replays small arrays)
        big.perm_cases(rec, hub, case_nprng(seed, "c04.big", shard, 0), 3 if tier == "quick" else 6)
    for w, (ci, reg) in enumerate(cases):
        if w % nshards != shard:
            continue
        if not budget.ok():
            for k in rec.exhaustive_spaces:
                rec.exhaustive_spaces[k] = False
            break
        rec.set_case(driver="c04.ops", seed=seed, tier=tier, shard=shard, nshards=nshards, idx=ci, regime=reg)
        one(rec, hub, seed, tier, ci, reg)


def replay(rec, hub, case):
    rng = case_nprng(case["seed"], "c04.perm-sampling", case.get("shard", 0), 0)
    tier = case.get("tier", "quick")
    perm.register(hub, exhaustive=(tier == "thorough"), rng=rng, max_pairs=24 if tier == "quick" else 576)
    rec.set_case(**case)
    if case["driver"] == "c04.big":
        from ..oracles import big

        with hub.pause():
            big.perm_cases(rec, hub, case_nprng(case["seed"], "c04.big", case.get("shard", 0), 0), 3 if tier == "quick" else 6)
        return
    one(rec, hub, case["seed"], tier, case["idx"], case["regime"])
