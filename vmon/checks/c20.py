"""C20 — Sankey and line plots show the system's numbers under the right labels."""

from __future__ import annotations

import itertools

import numpy as np

from .. import gen
from ..core import case_nprng
from ..drivers import system as SY
from ..model import LArr, Snap, as_float

LEVEL = "exploration"
BUDGET = {"quick": 55, "thorough": 420}
SHARDS = {"quick": 1, "thorough": 16}
RULE = (
    "the figures produced by the real plotters are read back (plotly Sankey node.label and link.source/target/value/label; plotly scatter "
    "traces x, y, name, xaxis; matplotlib axes[i].lines / collections) and compared with a label-keyed reference: Sankey = multiset of links "
    "{(source process, target process, total of the flow after applying the applicable slice entries, label)} for every flow that is "
    "neither excluded nor touches an excluded process, one link per item when a flow is split by a dimension, node labels = shown "
    "processes in order, nothing else; array plotters = for every subplot item s and line item l exactly one line in subplot index(s) "
    "whose y-data are the array's entries for (s,l) along the intra-line dimension and whose x-data are that dimension's items or the "
    "by-label cast of the supplied x array.  Workload: generated systems x slice dictionaries x exclusion lists x colour splits; arrays "
    "of 1-3 dims x EVERY assignment of dimensions to the subplot / line / x roles x names vs letters x x-arrays on every dim subset x "
    "chart types (plotly line/scatter/area, pyplot line/scatter).  Unique dyadic values make every line identify its labels.  "
    "Configuration signature = (plotter, roles, spelling, x-array dims, chart type) / (flows, exclusions, slice, split)"
)
MS = "sankey-links"
MA = "array-plot-lines"


def sankey_case(rec, hub, rng, tier, i):
    fd = hub.fd
    import importlib

    sk = importlib.import_module("flodym.export.sankey")
    d = SY.gen_def(rng, max_flows=8, max_stocks=0, big_system=0.03, hostile_names=bool(i % 3 == 0))
    if not d.flows:
        return
    names = [SY.flow_name(d, f) for f in d.flows]
    if len(set(names)) != len(names):
        return
    mfa = SY.build_system(fd, d)
    if i % 3 == 2 and len(d.processes) > 2:
        # assembled by hand: the processes dictionary is not in id order (node order = dictionary order of shown processes)
        order = [d.processes[j] for j in rng.permutation(len(d.processes))]
        mfa = fd.MFASystem(dims=mfa.dims, parameters=mfa.parameters, processes={n: mfa.processes[n] for n in order}, flows=mfa.flows, stocks=mfa.stocks)
        d.processes = order
    k = 1
    for f in mfa.flows.values():
        f[...] = (k * 64.0 + rng.permutation(f.values.size) * 0.25).reshape(f.dims.shape)
        k += 1
    items = {l: list(it) for l, n, it, dt in d.dims}
    dnames = {l: n for l, n, it, dt in d.dims}
    # slice dict: single items on a random subset of the system's dims
    slice_dict = {}
    for l in items:
        if rng.random() < 0.35:
            slice_dict[l] = items[l][int(rng.integers(0, len(items[l])))]
    excl_p = ["sysenv"] if rng.random() < 0.6 else []
    others = [p for p in d.processes if p != "sysenv"]
    if others and rng.random() < 0.3:
        excl_p.append(others[int(rng.integers(0, len(others)))])
    excl_f = [names[int(rng.integers(0, len(names)))]] if rng.random() < 0.3 else []
    colors = {"default": "hsl(230,20,70)"}
    split = {}
    for f, n in zip(d.flows, names):
        cand = [l for l in f["letters"] if l not in slice_dict]
        if cand and rng.random() < 0.3:
            l = cand[int(rng.integers(0, len(cand)))]
            key = l if rng.random() < 0.5 else dnames[l]
            colors[n] = (key, [f"hsl({10 * j},50,50)" for j in range(len(items[l]) + int(rng.integers(0, 2)))])
            split[n] = l
    # display names for some flows and processes - also for flows that are excluded, and (sometimes) a display name that is itself
    # the name of another flow or process
    disp = {}
    if rng.random() < 0.5:
        for n in names + list(d.processes):
            if rng.random() < 0.35 or (n in excl_f and rng.random() < 0.7):
                disp[n] = f"<{n}>" if rng.random() < 0.7 else str(rng.choice(names + list(d.processes)))
    dn = lambda s_: disp.get(s_, s_)
    # a first plot() that must fail (slice_dict names an unknown item of a dimension that not every flow has), corrected afterwards
    fail_first = bool(rng.random() < 0.25) and bool(slice_dict)
    sig = f"f={len(names)}|ex_p={len(excl_p)}|ex_f={len(excl_f)}|slice={sorted(slice_dict)}|split={len(split)}|disp={len(disp)}|ff={int(fail_first)}"
    rec.event(MS, sig=sig, cls=f"sankey|excl={len(excl_p)}+{len(excl_f)}|slice={len(slice_dict)}|split={'yes' if split else 'no'}",
              sample={"flows": names[:5], "exclude_processes": excl_p, "exclude_flows": excl_f, "slice_dict": {k_: str(v) for k_, v in slice_dict.items()}, "split": split})
    try:
        kw_disp = {"display_names": dict(disp)} if disp else {}
        if slice_dict and not fail_first and rng.random() < 0.2:
            # the slice keyed by dimension NAMES: refused, or honoured - never taken and then ignored
            by_name = {dnames[l_]: v_ for l_, v_ in slice_dict.items()}
            rec.event(MS, sig=sig + "|slice-by-name", cls="sankey|slice keyed by dimension names")
            try:
                fig_n = sk.PlotlySankeyPlotter(mfa=mfa, slice_dict=by_name, exclude_processes=list(excl_p), exclude_flows=list(excl_f), flow_color_dict={"default": "hsl(230,20,70)"}).plot()
            except Exception:
                fig_n = None
            if fig_n is not None:
                tot_n = sorted(float(v_) for v_ in fig_n.data[0].link.value)
                exp_n = []
                for f_, n_ in zip(d.flows, names):
                    if n_ in excl_f or f_["src"] in excl_p or f_["dst"] in excl_p:
                        continue
                    L_ = LArr.from_snap(Snap(mfa.flows[n_]))
                    exp_n.append(as_float(L_.select({l_: ("single", slice_dict[l_]) for l_ in f_["letters"] if l_ in slice_dict}).total()))
                if tot_n != sorted(exp_n):
                    rec.violation(MS, "sankey:slice-keyed-by-dimension-names-accepted-but-not-applied", {"slice_dict": {k_: str(v_) for k_, v_ in by_name.items()}, "got": tot_n[:5], "expected": sorted(exp_n)[:5]})
        if fail_first:
            bad_l = sorted(slice_dict)[int(rng.integers(0, len(slice_dict)))]
            plotter = sk.PlotlySankeyPlotter(mfa=mfa, slice_dict=dict(slice_dict, **{bad_l: "no such item"}), exclude_processes=list(excl_p), exclude_flows=list(excl_f), flow_color_dict=dict(colors), **kw_disp)
            try:
                plotter.plot()
            except Exception:
                rec.event(MS, sig=sig + "|failed-first", cls="sankey|plot-after-a-refused-plot")
            plotter.slice_dict = dict(slice_dict)
        else:
            plotter = sk.PlotlySankeyPlotter(mfa=mfa, slice_dict=dict(slice_dict), exclude_processes=list(excl_p), exclude_flows=list(excl_f), flow_color_dict=dict(colors), **kw_disp)
        fig = plotter.plot()
    except Exception as e:
        rec.violation(MS, "sankey:raised-on-a-valid-configuration", {"exc": f"{type(e).__name__}: {str(e)[:300]}", "slice_dict": {k_: str(v) for k_, v in slice_dict.items()}, "split": split, "exclude_processes": excl_p})
        return
    if i % 2 == 1 and len(d.processes) > 2:
        # the same plotter again after the user changed its exclusion list: the second figure must reflect the settings it has THEN
        more = [p for p in d.processes[:-1] if p not in excl_p]
        if more:
            excl_p = excl_p + [more[0]]
            try:
                plotter.exclude_processes = list(excl_p)
                fig = plotter.plot()
                rec.event(MS, sig=sig + "|replot", cls="sankey|same-plotter-after-changing-exclusions")
            except Exception as e:
                rec.violation(MS, "sankey:raised-on-second-plot-after-changing-exclusions", {"exc": f"{type(e).__name__}: {str(e)[:300]}", "exclude_processes": excl_p})
                return
    tr = fig.data[0]
    node_labels = list(tr.node.label)
    shown = [p for p in d.processes if p not in excl_p]
    if node_labels != [dn(p) for p in shown]:
        rec.violation(MS, "sankey:node-labels-differ-from-shown-processes", {"got": node_labels, "expected": [dn(p) for p in shown], "display_names": disp})
        return
    node_labels = list(shown)  # positions -> process names
    if node_labels != shown:
        rec.violation(MS, "sankey:node-labels-differ-from-shown-processes", {"got": node_labels, "expected": shown})
        return
    got = sorted((node_labels[s], node_labels[t], float(v), str(lab)) for s, t, v, lab in zip(tr.link.source, tr.link.target, tr.link.value, tr.link.label))
    exp = []
    for f, n in zip(d.flows, names):
        if n in excl_f or f["src"] in excl_p or f["dst"] in excl_p:
            continue
        L = LArr.from_snap(Snap(mfa.flows[n]))
        sel = {l: ("single", slice_dict[l]) for l in f["letters"] if l in slice_dict}
        R = L.select(sel)
        if n in split:
            l = split[n]
            m = R.marginal([l])
            for it in items[l]:
                exp.append((f["src"], f["dst"], as_float(m.cell[(it,)]), str(it)))
        else:
            exp.append((f["src"], f["dst"], as_float(R.total()), dn(n)))
    exp = sorted(exp)
    if len(got) != len(exp):
        rec.violation(MS, "sankey:number-of-links-differs", {"got": len(got), "expected": len(exp), "exclude_processes": excl_p, "exclude_flows": excl_f, "split": split, "display_names": disp, "after_a_refused_plot": fail_first})
        return
    for g, e in zip(got, exp):
        if g[:2] != e[:2] or g[3] != e[3]:
            rec.violation(MS, "sankey:link-endpoints-or-label-differ", {"got": list(g), "expected": list(e)})
            return
        if g[2] != e[2]:
            rec.violation(MS, "sankey:link-value-differs-from-flow-total", {"got": list(g), "expected": list(e), "slice_dict": {k_: str(v) for k_, v in slice_dict.items()}})
            return


def array_cases(rec, hub, rng, tier, i):
    """arrays of 1-3 dims x every assignment of dims to (subplot, line, x) roles"""
    fd = hub.fd
    import importlib

    ap = importlib.import_module("flodym.export.array_plotter")
    import matplotlib

    matplotlib.use("Agg")
    from matplotlib import pyplot as plt

    nd = 1 + i % 3
    tdim = fd.Dimension(letter="t", name="time", items=[2000, 2005, 2010, 2020][: int(rng.integers(2, 5))], dtype=int)
    if i % 5 == 3:
        # years (or codes) kept as TEXT: they are labels, shown as they are
        tdim = fd.Dimension(letter="t", name="time", items=[["2000", "2005", "2010", "2020"], ["007", "7", "70", "0.7"]][int(rng.integers(0, 2))][: int(rng.integers(2, 5))], dtype=str)
    rdim = fd.Dimension(letter="r", name="region", items=["EUR", "USA", "CHN"][: int(rng.integers(1, 4))], dtype=str)
    gdim = fd.Dimension(letter="g", name="good", items=["car", "bus", "bike", "van"][: int(rng.integers(2, 5))], dtype=str)
    all_dims = [tdim, rdim, gdim][:nd] if rng.random() < 0.5 else [tdim, gdim, rdim][:nd]
    order = [all_dims[j] for j in rng.permutation(nd)]
    dims = fd.DimensionSet(dim_list=order)
    vals = (64.0 + rng.permutation(int(np.prod(dims.shape))) * 0.25).reshape(dims.shape)
    if (i // 4) % 2:
        vals = vals / 3.0 + 2.0 ** 25  # needs the full double precision and lies above 2**24
    arr = fd.FlodymArray(dims=dims, values=vals, name="quantity")
    L = LArr.from_snap(Snap(arr))
    letters = [x.letter for x in order]
    for roles in itertools.permutations(letters):
        # roles: first = intra-line (x), then optional subplot / line
        for mode in (["xs", "xl"] if nd == 2 else (["xsl"] if nd == 3 else ["x"])):
            xl = roles[0]
            sl = roles[1] if "s" in mode and nd >= 2 else None
            ll = (roles[2] if nd == 3 else roles[1]) if "l" in mode else None
            if nd == 2 and mode == "xl":
                sl, ll = None, roles[1]
            spell = (lambda l: l) if rng.random() < 0.5 else (lambda l: dims[l].name)
            # x array on a random subset of dims (must include nothing foreign)
            x_arr = None
            xsig = "-"
            if rng.random() < 0.5:
                sub = [l for l in letters if rng.random() < 0.6]
                xd = fd.DimensionSet(dim_list=[dims[l] for l in rng.permutation(sub)]) if sub else fd.DimensionSet(dim_list=[])
                xv = (1000.0 + rng.permutation(int(np.prod(xd.shape)) if xd.shape else 1) * 0.5).reshape(xd.shape)
                x_arr = fd.FlodymArray(dims=xd, values=xv, name="xq")
                xsig = "".join(xd.letters)
            for plotter_name, chart in (("plotly", "line"), ("plotly", "scatter"), ("plotly", "area"), ("pyplot", "line"), ("pyplot", "scatter")):
                if tier == "quick" and chart != "line" and rng.random() < 0.5:
                    continue
                kw = dict(array=arr, intra_line_dim=spell(xl), chart_type=chart)
                if sl is not None:
                    kw["subplot_dim"] = spell(sl)
                if ll is not None:
                    kw["linecolor_dim"] = spell(ll)
                if x_arr is not None:
                    kw["x_array"] = x_arr.copy()
                disp = {}
                if rng.random() < 0.3:
                    # display names (also two items shown under the same text): labels change, the lines do not
                    for dl_ in (sl, ll):
                        if dl_ is not None:
                            its_ = list(dims[dl_].items)
                            same = rng.random() < 0.5
                            for it_ in its_[:2]:
                                disp[it_] = "shown as one" if same else f"display {it_}"
                    kw["display_names"] = dict(disp)
                sig = f"{plotter_name}|{chart}|nd={nd}|x={xl}|s={sl}|l={ll}|xarr={xsig}|shape={dims.shape}"
                rec.event(MA, sig=sig, cls=f"{plotter_name}|{chart}|nd={nd}|subplot={'y' if sl else 'n'}|lines={'y' if ll else 'n'}|xarr={'y' if x_arr is not None else 'n'}",
                          sample={"plotter": plotter_name, "chart": chart, "dims": letters, "intra_line": kw["intra_line_dim"], "subplot": kw.get("subplot_dim"), "line": kw.get("linecolor_dim"), "x_array_dims": xsig})
                cls = ap.PlotlyArrayPlotter if plotter_name == "plotly" else ap.PyplotArrayPlotter
                if plotter_name == "plotly" and sl is not None and chart == "line" and rng.random() < 0.4:
                    # a figure the user made: another grid than the plotter would choose; subplot i is the i-th cell in row-major order
                    from plotly.subplots import make_subplots

                    n_sub = len(dims[sl].items)
                    grids = [(1, n_sub), (n_sub, 1), (2, (n_sub + 1) // 2 + 1), (n_sub + 1, 2)]
                    rows_, cols_ = grids[int(rng.integers(0, len(grids)))]
                    kw["fig"] = make_subplots(rows_, cols_)
                    sig += f"|user-grid={rows_}x{cols_}"
                    rec.event(MA, sig=sig, cls="plotly|user-made-grid")
                try:
                    fig = cls(**kw).plot()
                except Exception as e:
                    rec.violation(MA, f"array-plot:raised-on-a-valid-configuration:{plotter_name}", {"exc": f"{type(e).__name__}: {str(e)[:300]}", "roles": sig})
                    continue
                if not any(fig is e_[0] for e_ in EARLIER):
                    earlier_figures_unchanged(rec, plt)
                try:
                    judge_figure(rec, fd, plotter_name, chart, fig, arr, L, dims, xl, sl, ll, x_arr, sig + ("|display" if disp else ""), disp=disp)
                    if chart == "line" and rng.random() < 0.35:
                        # a second array drawn onto the existing figure: the new lines must carry the second array's entries
                        vals2 = (4096.0 + rng.permutation(int(np.prod(dims.shape))) * 0.25).reshape(dims.shape)
                        arr2 = fd.FlodymArray(dims=dims, values=vals2, name="second")
                        kw2 = dict(kw, array=arr2, fig=fig)
                        n_before = len(fig.data) if plotter_name == "plotly" else [len(ax.lines) for ax in fig.axes]
                        rec.event(MA, sig=sig + "|onto-existing-figure", cls=f"{plotter_name}|second-array-on-existing-figure")
                        try:
                            fig2 = cls(**kw2).plot()
                        except Exception as e:
                            rec.violation(MA, f"array-plot:raised-when-adding-to-an-existing-figure:{plotter_name}", {"exc": f"{type(e).__name__}: {str(e)[:300]}", "roles": sig})
                        else:
                            judge_figure(rec, fd, plotter_name, chart, fig2, arr2, LArr.from_snap(Snap(arr2)), dims, xl, sl, ll, x_arr, sig + "|second", skip=n_before, disp=disp)
                finally:
                    try:
                        EARLIER.append((fig, plotter_name, chart, observe(fig, plotter_name, chart), sig))  # kept until the next plot is made
                    except Exception:
                        if plotter_name == "pyplot":
                            plt.close(fig)


def observe(fig, plotter_name, chart, skip=None):
    """observed lines: list of (subplot index, name, x list, y list)"""
    obs = []
    if plotter_name == "plotly":
        for tr in (fig.data if skip is None else fig.data[skip:]):
            ax = tr.xaxis or "x"
            idx = 0 if ax == "x" else int(ax[1:]) - 1
            obs.append((idx, str(tr.name), [_norm(v) for v in tr.x], [float(v) for v in tr.y]))
    else:
        for idx, ax in enumerate(fig.axes):
            if chart == "line":
                for ln in (ax.lines if skip is None else ax.lines[skip[idx]:]):
                    obs.append((idx, str(ln.get_label()), [_norm(v) for v in ln.get_xdata()], [float(v) for v in ln.get_ydata()]))
            else:
                for col in ax.collections:
                    off = col.get_offsets()
                    obs.append((idx, str(col.get_label()), [float(v) for v in off[:, 0]], [float(v) for v in off[:, 1]]))
    return obs


EARLIER = []  # figures made earlier in this process and still held by the "user": (figure, plotter, chart, what it showed, roles)


def earlier_figures_unchanged(rec, plt):
    """a figure the user still holds shows what it showed, whatever was plotted since (figures are not shared between plotters)"""
    while EARLIER:
        fig0, pn0, chart0, obs0, sig0 = EARLIER.pop()
        try:
            now = observe(fig0, pn0, chart0)
        except Exception as e:
            now = f"unreadable: {type(e).__name__}"
        rec.event(MA, sig=f"earlier-figure|{pn0}|{chart0}", cls=f"{pn0}|earlier-figure-after-a-later-plot")
        if now != obs0:
            rec.violation(MA, f"array-plot:an-earlier-figure-changed-when-another-array-was-plotted:{pn0}", {"roles_of_the_earlier_figure": sig0, "lines_before": len(obs0), "lines_now": len(now) if isinstance(now, list) else now})
        if pn0 == "pyplot":
            plt.close(fig0)


def _norm(v):
    if isinstance(v, (str, np.str_)):
        return "text:" + str(v)  # a text label stays the text it is, also when it is made of digits ("007" is not 7)
    try:
        return float(v)
    except (TypeError, ValueError):
        return "text:" + str(v)


def judge_figure(rec, fd, plotter_name, chart, fig, arr, L, dims, xl, sl, ll, x_arr, sig, skip=None, disp=None):
    s_items = list(dims[sl].items) if sl else [None]
    l_items = list(dims[ll].items) if ll else [None]
    x_items = list(dims[xl].items)
    X = LArr.from_snap(Snap(x_arr)) if x_arr is not None else None
    obs = observe(fig, plotter_name, chart, skip)
    exp = []
    for si, s in enumerate(s_items):
        for l in l_items:
            ys, xs = [], []
            for xi in x_items:
                lab = {xl: xi}
                if sl:
                    lab[sl] = s
                if ll:
                    lab[ll] = l
                ys.append(as_float(L.cell[tuple(lab[d_[0]] for d_ in L.dims)]))
                if X is None:
                    xs.append(_norm(xi))
                else:
                    xs.append(as_float(X.cell[tuple(lab[d_[0]] for d_ in X.dims)]))
            exp.append((si, xs, ys, l))
    if len(obs) != len(exp):
        rec.violation(MA, f"array-plot:number-of-lines-differs:{plotter_name}", {"got": len(obs), "expected": len(exp), "roles": sig})
        return
    # every expected line must appear exactly once in its subplot (values are unique, so y identifies the labels)
    remaining = list(obs)
    for si, xs, ys, l in exp:
        hit = [o for o in remaining if o[3] == ys]
        if not hit:
            rec.violation(MA, f"array-plot:no-line-carries-the-entries-of-these-labels:{plotter_name}", {"subplot_item_index": si, "line_item": str(l), "expected_y": ys[:6], "roles": sig,
                          "observed_y_heads": [o[3][:3] for o in obs[:4]]})
            return
        o = hit[0]
        remaining.remove(o)
        if o[0] != si:
            rec.violation(MA, f"array-plot:line-drawn-in-the-wrong-subplot:{plotter_name}", {"got_subplot": o[0], "expected_subplot": si, "roles": sig})
            return
        categorical_scatter = plotter_name == "pyplot" and chart == "scatter" and any(isinstance(v, str) for v in xs)
        if o[2] != xs and not categorical_scatter:
            rec.violation(MA, f"array-plot:x-data-differ:{plotter_name}", {"got": o[2][:6], "expected": xs[:6], "roles": sig, "x_array": x_arr is not None})
            return
        if l is not None and plotter_name == "plotly" and o[1] != str((disp or {}).get(l, l)):
            rec.violation(MA, "array-plot:line-named-after-another-item:plotly", {"got": o[1], "expected": str(l), "roles": sig})
            return


def invalid_dims(rec, hub, rng):
    fd = hub.fd
    import importlib

    ap = importlib.import_module("flodym.export.array_plotter")
    U = gen.universe(fd, {"a": 2, "b": 3})
    arr = fd.FlodymArray(dims=gen.dimset(fd, U, ("a", "b")), values=np.arange(6.0).reshape(2, 3))
    for kw in (dict(intra_line_dim="zz"), dict(intra_line_dim="a", subplot_dim="q"), dict(intra_line_dim="a"), dict(intra_line_dim="a", subplot_dim="a")):
        rec.event(MA, sig=f"invalid|{sorted(kw.items())}", cls="invalid-roles")
        try:
            ap.PlotlyArrayPlotter(array=arr, **kw).plot()
        except Exception:
            continue
        rec.violation(MA, "array-plot:accepted-invalid-dimension-roles", {"kwargs": kw})


def run(rec, hub, tier, seed, shard, nshards, budget):
    rec.require(MS, 30)
    rec.require(MA, 50)
    rec.exhaustive_spaces["every assignment of an array's dimensions to the x / subplot / line roles (1-3 dims)"] = True
    n = 200 if tier == "quick" else 2000
    if shard == 0:
        invalid_dims(rec, hub, case_nprng(seed, "c20.invalid", 0, 0))
    for kk in range(n):
        if not budget.ok():
            break
        i = kk * nshards + shard
        rec.set_case(driver="c20.sankey", seed=seed, tier=tier, shard=shard, nshards=nshards, idx=i)
        sankey_case(rec, hub, case_nprng(seed, "c20.sankey", 0, i), tier, i)
        if kk % 4 == 0:
            rec.set_case(driver="c20.array", seed=seed, tier=tier, shard=shard, nshards=nshards, idx=i)
            array_cases(rec, hub, case_nprng(seed, "c20.array", 0, i), tier, i)


def replay(rec, hub, case):
    rec.set_case(**case)
    if case["driver"] == "c20.sankey":
        sankey_case(rec, hub, case_nprng(case["seed"], "c20.sankey", 0, case["idx"]), case.get("tier", "quick"), case["idx"])
    else:
        array_cases(rec, hub, case_nprng(case["seed"], "c20.array", 0, case["idx"]), case.get("tier", "quick"), case["idx"])
