"""C19 — exports reproduce every flow and stock under its labels."""

from __future__ import annotations

import os
import pathlib
import pickle
import shutil
import sys
import tempfile

import numpy as np
import pandas as pd

from ..core import case_nprng
from ..drivers import system as SY
from ..model import Snap

LEVEL = "exploration"
BUDGET = {"quick": 55, "thorough": 400}
SHARDS = {"quick": 1, "thorough": 16}
RULE = (
    "generated systems (graphs, dimensionalities, flow and stock names with spaces, arrows, punctuation and unicode that stay distinct after "
    "file-name sanitising) carry unique dyadic values per array, so content identifies the array; convert_to_dict (numpy and pandas), "
    "export_mfa_to_pickle, export_mfa_flows_to_csv, export_mfa_stocks_to_csv (with and without inflow/outflow) and MFADefinition.to_dfs are "
    "called on the real code and compared with the system snapshot: every flow and stock under its name with exactly its values, dimension "
    "letters/names/items, process list, per-flow (source, target), per-stock process; pandas frames and CSV files are re-imported through an "
    "independent reader and through the real from_df and must equal the arrays; an audit hook records every file opened for writing: exactly "
    "one file per flow / exported stock quantity, all inside the export directory; the system snapshot is unchanged by exporting.  "
    "Configuration signature = (export route, counts of flows/stocks, dimensionalities)"
)
M = "export-content"
MFILES = "export-files"
MDEF = "definition-tables"

_AUDIT = {"on": False, "events": []}


def _hook(event, args):
    if _AUDIT["on"] and event == "open":
        path, mode = args[0], args[1]
        if isinstance(mode, str) and any(c in mode for c in "wax+") and isinstance(path, (str, bytes, os.PathLike)):
            _AUDIT["events"].append(os.fspath(path) if not isinstance(path, bytes) else path.decode())


_installed = []


def audit_on():
    if not _installed:
        sys.addaudithook(_hook)
        _installed.append(True)
    _AUDIT["events"] = []
    _AUDIT["on"] = True


def audit_off():
    _AUDIT["on"] = False
    return list(_AUDIT["events"])


def ref_file_name(value: str) -> str:
    """the documented sanitising, written independently: NFKD -> ASCII, drop everything but word characters, white space and
    hyphens, lower case, EVERY hyphen or white-space character becomes one underscore, strip leading/trailing '-' and '_'"""
    import unicodedata

    v = unicodedata.normalize("NFKD", str(value)).encode("ascii", "ignore").decode("ascii").lower()
    kept = "".join(ch for ch in v if ch.isalnum() or ch == "_" or ch.isspace() or ch == "-")
    return "".join("_" if (ch == "-" or ch.isspace()) else ch for ch in kept).strip("-_")


def _zero_column_is_an_item_set(arr):
    """an all-zero value column equals, after int(), the item set {0} of an int-typed dimension: the converter then takes the values
    for that dimension (open finding F24, produced on purpose in C11) - the generator stays clear of it"""
    return any(d.dtype is int and set(d.items) == {0} for d in arr.dims)


def fill(mfa, rng):
    from ..gen import relayout

    k = 1
    for f in mfa.flows.values():
        n = f.values.size
        if rng.random() < 0.12 and not _zero_column_is_an_item_set(f):
            k += 1
            continue  # a flow that is zero everywhere is a flow like any other
        v = (k * 4096.0 + rng.permutation(n) * 0.25).reshape(f.dims.shape)
        if rng.random() < 0.4:
            v = v / 3.0 + 0.1  # not representable as short decimals: every one of the 17 significant digits matters
        if rng.random() < 0.5:
            f[...] = v
        else:
            f.set_values(relayout(v, rng))  # keeps the given memory layout (Fortran order / strided view)
        k += 1
    for s in mfa.stocks.values():
        for arr in (s.stock, s.inflow, s.outflow):
            n = arr.values.size
            k += 1
            if rng.random() < 0.2 and not _zero_column_is_an_item_set(arr):
                continue  # e.g. a pure sink: its outflow is zero everywhere (and still an exported quantity)
            arr[...] = (k * 4096.0 + rng.permutation(n) * 0.25).reshape(arr.dims.shape)


def snapshot(mfa):
    return {"flows": {n: Snap(f) for n, f in mfa.flows.items()}, "stocks": {n: (Snap(s.stock), Snap(s.inflow), Snap(s.outflow)) for n, s in mfa.stocks.items()}}


def unchanged(a, b):
    return all(a["flows"][n].same(b["flows"][n]) for n in a["flows"]) and all(all(x.same(y) for x, y in zip(a["stocks"][n], b["stocks"][n])) for n in a["stocks"])


def frame_to_map(df, names):
    d = df.reset_index() if (not isinstance(df.index, pd.RangeIndex) or df.index.names != [None]) else df
    out = {}
    cols = [d[n].tolist() for n in names]  # column-wise: iterrows would upcast integer labels to float
    vals = d["value"].tolist()
    for r in range(len(d)):
        out[tuple(str(c[r]) for c in cols)] = float(vals[r])
    return out


def array_map(snap):
    out = {}
    for idx in np.ndindex(*snap.shape):
        out[tuple(str(snap.items[k][i]) for k, i in enumerate(idx))] = float(snap.values[idx])
    return out


def one(rec, hub, seed, tier, i, tmpdir):
    fd = hub.fd
    import importlib

    ex = importlib.import_module("flodym.export")
    helper = importlib.import_module("flodym.export.helper")
    rng = case_nprng(seed, "c19.system", 0, i)
    d = SY.gen_def(rng, hostile_names=True, max_flows=8, vary_items=True, big_system=0.03, lookalike_dim_names=0.15)
    for s_ in d.stocks:
        s_["name"] = s_["name"].replace("None", "nowhere")
    # names must stay distinct after sanitising (the statement's domain)
    if i % 4 == 1 and len(d.flows) >= 2:
        # names that differ only in how separators are repeated or placed stay distinct after sanitising
        d.flows[0]["override"] = "scrap - sorting plant"
        d.flows[1]["override"] = "scrap sorting - plant" if rng.random() < 0.5 else "scrap  sorting plant"
    if i % 4 == 3 and len(d.stocks) >= 2:
        d.stocks[0]["name"], d.stocks[1]["name"] = "in - use", "in use"
    if i % 5 == 2:
        # long descriptive names that differ only at their very end (distinct after sanitising, whatever their length)
        long_ = "collection and mechanical sorting of post-consumer packaging waste from households and small businesses"
        if len(d.flows) >= 2:
            d.flows[0]["override"], d.flows[1]["override"] = long_ + ", stream A", long_ + ", stream B"
        if len(d.stocks) >= 2 and i % 4 != 3:
            d.stocks[0]["name"], d.stocks[1]["name"] = long_ + " (in use, region group 1)", long_ + " (in use, region group 2)"
    names = [SY.flow_name(d, f) for f in d.flows]
    san = [ref_file_name(n) for n in names]
    if len(set(names)) != len(names) or len(set(san)) != len(san):
        rec.skip(M, "flow names not distinct after sanitising")
        return
    sn = [ref_file_name(s["name"]) for s in d.stocks]
    if len(set(sn)) != len(sn):
        rec.skip(M, "stock names not distinct after sanitising")
        return
    mfa = SY.build_system(fd, d)
    if i % 3 == 2 and len(d.processes) > 2:
        # a system assembled by hand: same processes (ids as defined), but the dictionary is not in id order
        order = [d.processes[j] for j in rng.permutation(len(d.processes))]
        mfa = fd.MFASystem(dims=mfa.dims, parameters=mfa.parameters, processes={n: mfa.processes[n] for n in order}, flows=mfa.flows, stocks=mfa.stocks)
        d.processes_listed = order
    if i % 5 == 4 and d.stocks:
        # assembled by hand: the stocks are registered under other labels than their .name (the dictionary key is the system's name for them)
        rekeyed = {f"key of {n}": st for n, st in mfa.stocks.items()}
        mfa = fd.MFASystem(dims=mfa.dims, parameters=mfa.parameters, processes=mfa.processes, flows=mfa.flows, stocks=rekeyed)
        for s_ in d.stocks:
            s_["name"] = f"key of {s_['name']}"
        sn = [ref_file_name(s_["name"]) for s_ in d.stocks]
    fill(mfa, rng)
    before = snapshot(mfa)
    shape_sig = f"f={len(d.flows)}|s={len(d.stocks)}|nd={sorted(set(len(f['letters']) for f in d.flows))}"

    def bad(mech, **w):
        w.update(flows=names[:5], stocks=[s["name"] for s in d.stocks][:3])
        rec.violation(M, mech, w)

    # ---- convert_to_dict numpy -------------------------------------------------------
    for kind in ("numpy", "pandas"):
        rec.event(M, sig=f"dict-{kind}|{shape_sig}", cls=f"convert_to_dict|{kind}", sample={"route": f"convert_to_dict({kind})", "flows": names[:4], "stocks": [s["name"] for s in d.stocks]})
        try:
            out = ex.convert_to_dict(mfa, type=kind)
        except Exception as e:
            bad(f"convert_to_dict-raised:{kind}", exc=f"{type(e).__name__}: {str(e)[:200]}")
            continue
        check_dict(rec, fd, d, mfa, before, out, kind, bad)
    rec.event(M, sig="dict-unknown-type", cls="convert_to_dict|unknown-type")
    try:
        ex.convert_to_dict(mfa, type="xml")
        bad("convert_to_dict-accepted-unknown-type")
    except Exception:
        pass
    # ---- pickle -------------------------------------------------------------------------
    ppath = os.path.join(tmpdir, f"exp_{i}.pickle")
    as_path = (lambda q: pathlib.Path(q)) if i % 4 == 1 else (lambda q: q)  # destinations as text or as pathlib.Path objects
    audit_on()
    try:
        ex.export_mfa_to_pickle(mfa, as_path(ppath))
        err = None
    except Exception as e:
        err = e
    files = audit_off()
    rec.event(M, sig=f"pickle|{shape_sig}", cls="pickle")
    rec.event(MFILES, sig=f"pickle|{len(files)}", cls="files|pickle")
    if err is not None:
        bad("pickle-export-raised", exc=repr(err)[:200])
    else:
        if [os.path.realpath(f) for f in files] != [os.path.realpath(ppath)]:
            rec.violation(MFILES, "pickle-export-wrote-other-files", {"files": files, "expected": ppath})
        with open(ppath, "rb") as fh:
            loaded = pickle.load(fh)
        check_dict(rec, fd, d, mfa, before, loaded, "numpy", bad, where="pickle")
    # ---- csv exports -----------------------------------------------------------------------
    fdir = os.path.join(tmpdir, f"flows_{i}", "nested")
    if i % 6 in (2, 5) and names:
        # an earlier export attempt, into the same directories, of ANOTHER system whose names collide after sanitising (outside the
        # statement's domain: whatever it does - overwrite, refuse - is not judged); the user clears the directories and exports the
        # present, well-named system, whose names map onto the same files
        try:
            tl_ = [l for l, n_, it_, dt_ in d.dims][:1]
            procs_ = fd.make_processes(["sysenv", "somewhere"])
            dims_ = SY.fd_dims(fd, d)
            fl_ = fd.make_empty_flows(processes=procs_, dims=dims_, flow_definitions=[
                fd.FlowDefinition(from_process_name="sysenv", to_process_name="somewhere", dim_letters=tuple(tl_), name_override=names[0] + "!"),
                fd.FlowDefinition(from_process_name="somewhere", to_process_name="sysenv", dim_letters=tuple(tl_), name_override=names[0] + "?")])
            st_defs = [fd.StockDefinition(name=d.stocks[0]["name"] + sfx, process_name="somewhere", dim_letters=tuple(d.stocks[0]["letters"]), subclass=fd.SimpleFlowDrivenStock, time_letter=d.stocks[0]["time_letter"]) for sfx in ("!", "?")] if d.stocks else []
            st_ = fd.make_empty_stocks(stock_definitions=st_defs, processes=procs_, dims=dims_)
            other = fd.MFASystem(dims=dims_, parameters={}, processes=procs_, flows=fl_, stocks=st_)
            with hub.pause():
                for f_, dir_ in ((lambda: ex.export_mfa_flows_to_csv(other, fdir), fdir),
                                 (lambda: ex.export_mfa_stocks_to_csv(other, os.path.join(tmpdir, f"stocks_{i}_0")), os.path.join(tmpdir, f"stocks_{i}_0")),
                                 (lambda: ex.export_mfa_stocks_to_csv(other, os.path.join(tmpdir, f"stocks_{i}_1"), with_in_and_out=True), os.path.join(tmpdir, f"stocks_{i}_1"))):
                    try:
                        f_()
                    except Exception:
                        pass
                    shutil.rmtree(dir_, ignore_errors=True)
            rec.event(M, sig=f"after-colliding-export|{shape_sig}", cls="csv|export-after-an-export-of-colliding-names")
        except Exception as e:
            rec.skip(M, f"colliding system could not be built: {type(e).__name__}")
    audit_on()
    try:
        ex.export_mfa_flows_to_csv(mfa, as_path(fdir))
        err = None
    except Exception as e:
        err = e
    files = audit_off()
    rec.event(M, sig=f"csv-flows|{shape_sig}", cls="csv|flows")
    rec.event(MFILES, sig=f"csv-flows|{len(files)}|{len(names)}", cls="files|csv-flows")
    if err is not None:
        bad("flow-csv-export-raised", exc=repr(err)[:200])
    else:
        check_files(rec, files, fdir, [f"{x}.csv" for x in san], "flows")
        for n, sname in zip(names, san):
            check_csv(rec, fd, os.path.join(fdir, f"{sname}.csv"), mfa.flows[n], before["flows"][n], f"flow {n}", bad)
    for with_io in (False, True):
        sdir = os.path.join(tmpdir, f"stocks_{i}_{int(with_io)}")
        audit_on()
        try:
            if i % 3 == 1:
                ex.export_mfa_stocks_to_csv(mfa, as_path(sdir), with_io)  # the flag by position
            else:
                ex.export_mfa_stocks_to_csv(mfa, as_path(sdir), with_in_and_out=with_io)
            err = None
        except Exception as e:
            err = e
        files = audit_off()
        attrs = ["stock"] + (["inflow", "outflow"] if with_io else [])
        rec.event(M, sig=f"csv-stocks|{with_io}|{shape_sig}", cls=f"csv|stocks|in_out={int(with_io)}")
        rec.event(MFILES, sig=f"csv-stocks|{with_io}|{len(files)}", cls="files|csv-stocks")
        if err is not None:
            bad("stock-csv-export-raised", exc=repr(err)[:200])
            continue
        check_files(rec, files, sdir, [f"{x}_{a}.csv" for x in sn for a in attrs], "stocks")
        for s, sname in zip(d.stocks, sn):
            for j, a in enumerate(["stock", "inflow", "outflow"]):
                if a in attrs:
                    check_csv(rec, fd, os.path.join(sdir, f"{sname}_{a}.csv"), getattr(mfa.stocks[s["name"]], a), before["stocks"][s["name"]][j], f"stock {s['name']} {a}", bad)
    after = snapshot(mfa)
    rec.event(M, sig="unchanged|" + shape_sig, cls="system-unchanged-by-export")
    if not unchanged(before, after):
        bad("exporting-altered-the-system")
    # ---- definition tables ---------------------------------------------------------------------
    definition_tables(rec, fd, d)
    shutil.rmtree(os.path.join(tmpdir, f"flows_{i}"), ignore_errors=True)
    for with_io in (0, 1):
        shutil.rmtree(os.path.join(tmpdir, f"stocks_{i}_{with_io}"), ignore_errors=True)
    try:
        os.unlink(ppath)
    except OSError:
        pass


def check_dict(rec, fd, d, mfa, before, out, kind, bad, where="dict"):
    exp_keys = {"dimension_names", "dimension_items", "processes", "flows", "flow_dimensions", "flow_processes", "stocks", "stock_dimensions", "stock_processes"}
    if not isinstance(out, dict) or not exp_keys <= set(out.keys()):
        bad(f"{where}:keys-missing", got=sorted(out.keys()) if isinstance(out, dict) else repr(out)[:80])
        return
    if out["dimension_names"] != {l: n for l, n, it, dt in d.dims}:
        bad(f"{where}:dimension-names-differ", got=out["dimension_names"])
    if {k: list(v) for k, v in out["dimension_items"].items()} != {n: list(it) for l, n, it, dt in d.dims}:
        bad(f"{where}:dimension-items-differ")
    if list(out["processes"]) != getattr(d, "processes_listed", d.processes):
        bad(f"{where}:process-list-differs", got=list(out["processes"]))
    names = [SY.flow_name(d, f) for f in d.flows]
    if list(out["flows"].keys()) != names:
        bad(f"{where}:flows-missing-or-extra", got=list(out["flows"].keys())[:6], expected=names[:6])
        return
    for f, n in zip(d.flows, names):
        snap = before["flows"][n]
        if n not in out["flow_dimensions"] or n not in out["flow_processes"]:
            bad(f"{where}:flow-missing-from-dimension-or-process-table", flow=n)
            continue
        if tuple(out["flow_dimensions"][n]) != tuple(f["letters"]):
            bad(f"{where}:flow-dimensions-differ", flow=n, got=list(out["flow_dimensions"][n]))
        if tuple(out["flow_processes"][n]) != (f["src"], f["dst"]):
            bad(f"{where}:flow-source-target-differ", flow=n, got=list(out["flow_processes"][n]), expected=[f["src"], f["dst"]])
        check_payload(rec, fd, out["flows"][n], mfa.flows[n], snap, kind, f"{where}:flow", n, bad)
    snames = [s["name"] for s in d.stocks]
    if list(out["stocks"].keys()) != snames:
        bad(f"{where}:stocks-missing-or-extra", got=list(out["stocks"].keys()), expected=snames)
        return
    for s in d.stocks:
        n = s["name"]
        if n not in out["stock_dimensions"]:
            bad(f"{where}:stock-missing-from-dimension-table", stock=n)
        elif tuple(out["stock_dimensions"][n]) != tuple(s["letters"]):
            bad(f"{where}:stock-dimensions-differ", stock=n)
        if s["process"] is None:
            if n in out["stock_processes"]:
                bad(f"{where}:process-less-stock-has-a-process", stock=n)
        elif out["stock_processes"].get(n) != s["process"]:
            bad(f"{where}:stock-process-differs", stock=n, got=out["stock_processes"].get(n), expected=s["process"])
        check_payload(rec, fd, out["stocks"][n], mfa.stocks[n].stock, before["stocks"][n][0], kind, f"{where}:stock", n, bad)


def check_payload(rec, fd, payload, arr, snap, kind, where, name, bad):
    if kind == "numpy":
        if not isinstance(payload, np.ndarray) or payload.shape != snap.shape or not np.array_equal(payload, snap.values):
            bad(f"{where}-values-differ", name=name)
        return
    if not isinstance(payload, pd.DataFrame):
        bad(f"{where}-not-a-frame", name=name)
        return
    if not snap.letters:
        return
    try:
        got = frame_to_map(payload, list(snap.names))
    except Exception as e:
        bad(f"{where}-frame-unreadable", name=name, exc=repr(e)[:200])
        return
    if got != array_map(snap):
        bad(f"{where}-frame-differs-from-array", name=name)
    try:
        back = fd.FlodymArray.from_df(dims=arr.dims, df=payload)
        if not np.array_equal(back.values, snap.values):
            bad(f"{where}-frame-reimport-differs", name=name)
    except Exception as e:
        bad(f"{where}-frame-reimport-raised", name=name, exc=f"{type(e).__name__}: {str(e)[:200]}")


def check_files(rec, files, directory, expected_names, what):
    real = sorted(os.path.realpath(f) for f in files)
    exp = sorted(os.path.realpath(os.path.join(directory, n)) for n in expected_names)
    root = os.path.realpath(directory) + os.sep
    if any(not f.startswith(root) for f in real):
        rec.violation(MFILES, f"{what}-export-wrote-outside-the-export-directory", {"files": real[:6], "directory": directory})
    if real != exp:
        rec.violation(MFILES, f"{what}-export-files-differ-from-one-per-array", {"got": [os.path.basename(f) for f in real][:8], "expected": [os.path.basename(f) for f in exp][:8]})
    on_disk = sorted(os.listdir(directory)) if os.path.isdir(directory) else []
    if on_disk != sorted(expected_names):
        rec.violation(MFILES, f"{what}-export-directory-content-differs", {"got": on_disk[:8], "expected": sorted(expected_names)[:8]})


def check_csv(rec, fd, path, arr, snap, what, bad):
    if not os.path.exists(path):
        bad("csv-file-missing", what=what, path=os.path.basename(path))
        return
    if not snap.letters:
        return
    df = pd.read_csv(path, float_precision="round_trip")  # exact parser: the text must determine the double exactly
    try:
        got = frame_to_map(df, list(snap.names))
        if got != array_map(snap):
            bad("csv-content-differs-from-array", what=what)
    except Exception as e:
        bad("csv-unreadable", what=what, exc=repr(e)[:200])
    try:
        back = fd.FlodymArray.from_df(dims=arr.dims, df=df)
        if not np.array_equal(back.values, snap.values):
            bad("csv-reimport-differs", what=what)
        # the tolerant flags change nothing for a complete file without strangers
        for flags in (dict(allow_extra_values=True), dict(allow_missing_values=True), dict(allow_extra_values=True, allow_missing_values=True)):
            back = fd.FlodymArray.from_df(dims=arr.dims, df=df.copy(), **flags)
            if not np.array_equal(back.values, snap.values):
                bad("csv-reimport-differs:" + "+".join(sorted(flags)), what=what)
    except Exception as e:
        bad("csv-reimport-raised", what=what, exc=f"{type(e).__name__}: {str(e)[:200]}")


def definition_tables(rec, fd, d):
    dimdefs, flows, stocks, params = SY.fd_definitions(fd, d)
    definition = fd.MFADefinition(dimensions=dimdefs, processes=d.processes, flows=flows, stocks=stocks, parameters=params)
    rec.event(MDEF, sig=f"f={len(flows)}|s={len(stocks)}|p={len(params)}", cls=f"to_dfs|kinds={sum(bool(x) for x in (dimdefs, d.processes, flows, stocks, params))}")
    try:
        out = definition.to_dfs()
    except Exception as e:
        rec.violation(MDEF, "to_dfs-raised", {"exc": f"{type(e).__name__}: {str(e)[:300]}", "n_flows": len(flows), "n_stocks": len(stocks)})
        return
    kinds = {"dimensions": dimdefs, "processes": d.processes, "flows": flows, "stocks": stocks, "parameters": params}
    _judge_definition_tables(rec, out, kinds, "")
    # the same definition object edited in place (every list keeps its length) and exported again: the tables are those of the
    # definition as it stands
    try:
        edited = False
        for attr in ("flows", "parameters", "stocks", "dimensions"):
            lst = getattr(definition, attr)
            if isinstance(lst, list) and len(lst) >= 2 and lst[0] != lst[-1]:
                lst[0], lst[-1] = lst[-1], lst[0]
                edited = True
        if edited:
            rec.event(MDEF, sig=f"edited|f={len(flows)}|s={len(stocks)}|p={len(params)}", cls="to_dfs|second export after an in-place edit of the definition")
            out2 = definition.to_dfs()
            kinds2 = {"dimensions": list(definition.dimensions), "processes": list(definition.processes), "flows": list(definition.flows), "stocks": list(definition.stocks), "parameters": list(definition.parameters)}
            _judge_definition_tables(rec, out2, kinds2, ":after-in-place-edit")
    except Exception as e:
        rec.violation(MDEF, "to_dfs-raised:after-in-place-edit", {"exc": f"{type(e).__name__}: {str(e)[:300]}"})


def _judge_definition_tables(rec, out, kinds, suffix):
    exp_keys = [k for k, v in kinds.items() if v]
    if sorted(out.keys()) != sorted(exp_keys):
        rec.violation(MDEF, "to_dfs-tables-differ-from-non-empty-kinds" + suffix, {"got": sorted(out.keys()), "expected": sorted(exp_keys)})
        return
    for k in exp_keys:
        df = out[k]
        if len(df) != len(kinds[k]):
            rec.violation(MDEF, "to_dfs-row-count-differs" + suffix, {"kind": k, "rows": len(df), "definitions": len(kinds[k])})
            continue
        for r, obj in enumerate(kinds[k]):
            row = df.iloc[r]
            fields = {"name": obj} if isinstance(obj, str) else obj.model_dump()
            for fk, fv in fields.items():
                if fk not in df.columns:
                    rec.violation(MDEF, "to_dfs-field-column-missing" + suffix, {"kind": k, "field": fk})
                    break
                cell = row[fk]
                same = cell == fv if not isinstance(fv, (tuple, list)) else tuple(cell) == tuple(fv)
                if fv is None:
                    same = cell is None  # the field value is None: a NaN in its place is another value (and another type)
                if not same:
                    rec.violation(MDEF, "to_dfs-cell-differs-from-field" + suffix, {"kind": k, "field": fk, "got": repr(cell)[:60], "expected": repr(fv)[:60]})
                    break


def special_values_and_labels(rec, hub, seed, g):
    """The pandas form of the export for (a) a dimension whose items are of MIXED types (years and a text label: 2020, 2030, "later") and
    (b) whole-number quantities beyond 2**53 stored as 64-bit integers: every value stands under the items themselves (same values, same
    types) and the value column holds exactly the numbers of the array.  (CSV text cannot carry item types, so mixed-type items are
    looked at in the pandas form only.)"""
    fd = hub.fd
    from flodym.export import convert_to_dict

    rng = case_nprng(seed, "c19.special", 0, g)
    mixed = fd.Dimension(name="Period", letter="p", items=[[2020, 2030, "later"], [1, 2.5, "n/a"], ["base", 2050]][g % 3])
    good = fd.Dimension(name="Good", letter="g", items=["car", "bike", "bus"][: 2 + g % 2])
    dims = fd.DimensionSet(dim_list=[mixed, good] if g % 2 else [good, mixed])
    procs = fd.make_processes(["sysenv", "use"])
    big = (2**53 + 1 + rng.integers(0, 2**40, size=dims.shape).astype(np.int64) * 2).astype(np.int64)  # odd numbers beyond 2**53
    small = rng.integers(1, 1000, size=dims.shape).astype(float) / 8.0
    flows = {"sysenv => use": fd.Flow(dims=dims, values=small.copy(), name="sysenv => use", from_process=procs["sysenv"], to_process=procs["use"]),
             "use => sysenv": fd.Flow(dims=dims, values=big.copy(), name="use => sysenv", from_process=procs["use"], to_process=procs["sysenv"])}
    mfa = fd.MFASystem(dims=dims, parameters={}, processes=procs, flows=flows, stocks={})
    rec.event(M, sig=f"special|{g % 3}|{g % 2}", cls="convert_to_dict|pandas|mixed-type items and 64-bit whole numbers beyond 2**53")
    try:
        out = convert_to_dict(mfa, type="pandas")
    except Exception as e:
        rec.violation(M, "dict:raised:mixed-type-items-or-large-integers", {"exc": repr(e)[:300]})
        return
    for name, truth in (("sysenv => use", small), ("use => sysenv", big)):
        df = out["flows"][name]
        flat = df.reset_index()
        for dim in dims:
            col = list(flat[dim.name]) if dim.name in flat.columns else None
            if col is None:
                rec.violation(M, "dict:flow-frame-lacks-a-dimension-column", {"flow": name, "dimension": dim.name})
                continue
            seen = list(dict.fromkeys(col))
            if len(seen) != len(dim.items) or any((a_ != b_) or (isinstance(a_, str) != isinstance(b_, str)) for a_, b_ in zip(sorted(seen, key=str), sorted(dim.items, key=str))):
                rec.violation(M, "dict:flow-frame-labels-are-not-the-items", {"flow": name, "dimension": dim.name, "labels": repr(seen)[:120], "items": repr(list(dim.items))[:120]})
        # every value under its labels, exactly
        pos = {dim.name: {(type(it).__name__ == "str", it): k for k, it in enumerate(dim.items)} for dim in dims}
        wrong = 0
        for _, row in flat.iterrows():
            try:
                idx = tuple(pos[dim.name][(isinstance(row[dim.name], str), row[dim.name])] for dim in dims)
            except KeyError:
                wrong += 1
                continue
            v = row["value"]
            if int(v) != int(truth[idx]) if truth.dtype.kind == "i" else float(v) != float(truth[idx]):
                wrong += 1
        if wrong:
            rec.violation(M, "dict:flow-frame-values-differ" + (":whole-numbers-beyond-2**53" if truth.dtype.kind == "i" else ""), {"flow": name, "n_wrong": wrong, "value_dtype": str(flat["value"].dtype)})


def run(rec, hub, tier, seed, shard, nshards, budget):
    rec.require(M, 50)
    rec.require(MFILES, 20)
    rec.require(MDEF, 10)
    n = 200 if tier == "quick" else 2000
    tmpdir = tempfile.mkdtemp(prefix="vmon-c19-")
    try:
        for g in range(6):
            rec.set_case(driver="c19.special", seed=seed, tier=tier, shard=shard, nshards=nshards, idx=g * nshards + shard)
            special_values_and_labels(rec, hub, seed, g * nshards + shard)
        for kk in range(n):
            if not budget.ok():
                break
            i = kk * nshards + shard
            rec.set_case(driver="c19.system", seed=seed, tier=tier, shard=shard, nshards=nshards, idx=i)
            one(rec, hub, seed, tier, i, tmpdir)
    finally:
        shutil.rmtree(tmpdir, ignore_errors=True)


def replay(rec, hub, case):
    tmpdir = tempfile.mkdtemp(prefix="vmon-c19-")
    try:
        rec.set_case(**case)
        if case["driver"] == "c19.special":
            special_values_and_labels(rec, hub, case["seed"], case["idx"])
            return
        one(rec, hub, case["seed"], case.get("tier", "quick"), case["idx"], tmpdir)
    finally:
        shutil.rmtree(tmpdir, ignore_errors=True)
