"""C06 — indexing by item labels reads and writes exactly the addressed entries."""

from __future__ import annotations

import itertools

from .. import gen
from ..core import case_nprng, interleave
from ..drivers import index as drv
from ..oracles import index as oidx

PIGGY = True  # thorough tier also runs the repository tests / howtos / examples under these monitors
LEVEL = "exploration"
BUDGET = {"quick": 50, "thorough": 300}
SHARDS = {"quick": 1, "thorough": 16}
PROPS = ("C06",)
RULE = (
    "every __getitem__/__setitem__/split/items_where call is judged in the API wrapper against an independent model of the key forms "
    "(selector per dimension: none / single item / subset Dimension / list) on the label-keyed reference LArr: result dims "
    "(singles dropped, subsets replaced, order kept), every entry by label in the requested item order, entries outside a written "
    "region bit-identical, must-raise classes (unknown item incl. integer positions, ambiguous bare item, slices, non-subset Dimension, "
    "several items of one dimension on a read).  Workload: ALL 3^n read and 4^n write selector assignments on n-dimensional arrays "
    "(n=4 quick, n=5 thorough) x length patterns incl. all-equal x subset orders (identity, reversed, rotated, random) x key spellings "
    "(letter dict, name dict, mixed, bare item, tuple; keys of a neighbouring type such as fractional or textual years must be refused) x arrays of 10^4-10^6 entries with a dimension of 150-700 items stored in scrambled order and selections of a third to all of them (np.take twin) x right-hand sides (number, ndarray, arrays with permuted / surplus / missing dims).  "
    "Configuration signature = (read|write, dims and lengths, key form, selector kind per dimension, subset orders, rhs kind)"
)


def plan(tier):
    if tier == "quick":
        return "abcd", gen.LENGTH_PATTERNS[4][:2]
    return "abcde", gen.LENGTH_PATTERNS[5]


def one(rec, hub, tier, seed, letters, pat, pi, what, ai, assign):
    fd = hub.fd
    U = gen.universe(fd, dict(zip(letters, pat)), rng=case_nprng(seed, f"c06.universe.{what}", 0, f"{pi}.{ai}"))
    rng = case_nprng(seed, f"c06.{what}", 0, f"{pi}.{ai}")
    if what == "read":
        drv.do_reads(hub, U, letters, assign, rng, "tagged")
    elif what == "write":
        drv.do_writes(hub, U, letters, letters, assign, rng, "dyadic")
    elif what == "misc":
        sub = letters[: ai % (len(letters) + 1)]
        drv.do_errors(hub, U, sub, rng)
        drv.do_close_labels_and_copies(hub, U, sub, rng)
        drv.do_items_where_split(hub, U, sub, rng)
        drv.do_whole_array(hub, U, sub, rng)
        drv.do_float32_targets(hub, U, sub, rng)
        drv.do_iterator_keys(hub, U, sub, rng)
        drv.do_key_object_reuse(hub, U, sub, rng)
    elif what == "big":
        drv.do_big_reads_writes(hub.rec, hub, rng)
    elif what == "history":
        sub = tuple(rng.permutation(list(letters))[: int(rng.integers(1, len(letters) + 1))])
        drv.do_history(hub, U, letters, sub, rng, 25 if tier == "quick" else 60)


def run(rec, hub, tier, seed, shard, nshards, budget):
    oidx.register(hub, PROPS)
    letters, patterns = plan(tier)
    n = len(letters)
    reads = list(itertools.product(drv.KINDS_READ, repeat=n))
    writes = list(itertools.product(drv.KINDS_WRITE, repeat=n))
    space = f"all {len(reads)} read and {len(writes)} write selector-kind assignments on {n}-dimensional arrays x {len(patterns)} length patterns"
    rec.exhaustive_spaces[space] = True
    phases = []
    for pi in range(len(patterns)):
        phases += [[("read", pi, ai) for ai in range(len(reads))], [("write", pi, ai) for ai in range(len(writes))], [("misc", pi, ai) for ai in range(12)], [("big", pi, ai) for ai in range(15 if tier == "quick" else 160)],
                   [("history", pi, ai) for ai in range(20 if tier == "quick" else 1500)]]
    work = interleave(*phases)
    for w, (what, pi, ai) in enumerate(work):
        if w % nshards != shard:
            continue
        if not budget.ok():
            if what in ("read", "write"):
                rec.exhaustive_spaces[space] = False
            break
        assign = reads[ai] if what == "read" else writes[ai] if what == "write" else None
        rec.set_case(driver=f"c06.{what}", seed=seed, tier=tier, shard=shard, nshards=nshards, pattern=pi, idx=ai, assign=assign)
        one(rec, hub, tier, seed, letters, patterns[pi], pi, what, ai, assign)


def replay(rec, hub, case):
    oidx.register(hub, PROPS)
    tier = case.get("tier", "quick")
    letters, patterns = plan(tier)
    rec.set_case(**case)
    what = case["driver"].split(".")[1]
    one(rec, hub, tier, case["seed"], letters, patterns[case["pattern"]], case["pattern"], what, case["idx"], tuple(case["assign"]) if case.get("assign") else None)
