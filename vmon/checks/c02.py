"""C02 — mass-balance and flow checks report exactly the violations."""

from __future__ import annotations

import math
from fractions import Fraction

import numpy as np

from ..core import case_nprng
from ..drivers import system as SY
from ..model import EPS, LArr, Snap, as_float, isnan, nabs

PIGGY = True  # thorough tier also runs the repository tests / howtos / examples under these monitors
LEVEL = "exploration"
BUDGET = {"quick": 55, "thorough": 400}
SHARDS = {"quick": 1, "thorough": 16}
RULE = (
    "every call of check_mass_balance / check_flows is judged in the API wrapper: an exact rational reference (Fractions on the label-keyed "
    "model) computes per process +flows in, -flows out, -(inflow-outflow) of attached stocks, the mirror entry on sysenv, each summed to the "
    "letters common to all contributions; expected 'flagged' iff some |b| > tol or b is NaN (tol = argument or 100*eps*max(|flow|,|stock|)); "
    "observed = raised (raise_error) / >=1 WARNING record captured on the root logger during the call.  Cases whose |b| lies within the "
    "float-error band around tol are counted as skipped; with dyadic values and a dyadic tolerance float arithmetic is exact and the boundary "
    "itself is judged (|b| = tol passes, tol + 2^-10 is flagged).  check_flows: flagged set = non-excepted flows with NaN or an entry < -tol, "
    "observed through the flow names in WARNING texts / the raised message.  Workload: random systems (0-6 processes besides sysenv, parallel "
    "and opposing flows, per-flow dimension subsets and orders, 0-3 stocks with or without process, processes without flows, no stocks, "
    "integer flows), balanced by construction through closing flows, then single-entry perturbations at 0, tol/8, tol/2, tol, 2tol, 8tol, "
    "1e3 tol and NaN; both raise_error modes; explicit and default tolerance.  Configuration signature = (graph shape, stocks, regime, "
    "perturbation, mode, tolerance kind)"
)
MB = "mass-balance-verdict"
MF = "check-flows-verdict"


def larr_of(arr):
    return LArr.from_snap(Snap(arr))


def ref_balances(mfa):
    """exact per-process balance: dict process -> (LArr b, LArr sum of |terms|, n_terms)"""
    parts = {p: [] for p in mfa.processes}
    for f in mfa.flows.values():
        L = larr_of(f)
        parts[f.from_process.name].append((-1, L))
        parts[f.to_process.name].append((+1, L))
    for s in mfa.stocks.values():
        if s.process is None:
            continue
        i, o = larr_of(s.inflow), larr_of(s.outflow)
        chg = i.elementwise(o.reorder(i.letters), lambda a, b: math.nan if (isnan(a) or isnan(b)) else a - b)
        parts[s.process.name].append((-1, chg))
        parts["sysenv"].append((+1, chg))
    out = {}
    for p, lst in parts.items():
        if not lst:
            out[p] = (LArr([], {(): 0}), LArr([], {(): 0}), 0)
            continue
        common = [l for l in lst[0][1].letters if all(l in L.letters for _, L in lst)]
        b = None
        ab = None
        n = 0
        for sign, L in lst:
            m = L.marginal(common)
            am = L.absarr().marginal(common)
            n += L.count_terms(common)
            sm = m.map(lambda v: v if isnan(v) else sign * v)
            b = sm if b is None else b.elementwise(sm, lambda x, y: math.nan if (isnan(x) or isnan(y)) else x + y)
            ab = am if ab is None else ab.elementwise(am, lambda x, y: math.nan if (isnan(x) or isnan(y)) else x + y)
        out[p] = (b, ab, n)
    return out


def default_tolerance(mfa):
    vals = [np.asarray(f.values, dtype=float) for f in mfa.flows.values()] + [np.asarray(s.stock.values, dtype=float) for s in mfa.stocks.values()]
    m = 0.0
    for v in vals:
        if v.size:
            a = np.abs(v[~np.isnan(v)])
            if a.size:
                m = max(m, float(a.max()))
    return 100 * EPS * m


def all_dyadic(mfa):
    tot = 0.0
    arrs = [f.values for f in mfa.flows.values()]
    for s in mfa.stocks.values():
        arrs += [s.inflow.values, s.outflow.values, s.stock.values]
    for v in arrs:
        v = np.asarray(v, dtype=float)
        w = v[~np.isnan(v)]
        if w.size and (np.any(w * 1024 != np.round(w * 1024)) or not np.all(np.isfinite(w))):
            return False
        tot += float(np.sum(np.abs(w)))
    return tot < 2.0**40


class BalanceOracle:
    def __init__(self, rec):
        self.rec = rec

    def pre(self, hub, call):
        cap = SY.LogCapture()
        import logging

        root = logging.getLogger()
        call.state["cap"] = cap
        call.state["level"] = root.level
        call.state["handlers"] = list(root.handlers)
        call.state["disable"] = logging.root.manager.disable
        for h in list(root.handlers):
            root.removeHandler(h)
        logging.disable(logging.NOTSET)
        root.setLevel(logging.DEBUG)
        root.addHandler(cap)

    def restore(self, call):
        import logging

        root = logging.getLogger()
        cap = call.state.get("cap")
        if cap is not None:
            root.removeHandler(cap)
            for h in call.state["handlers"]:
                root.addHandler(h)
            root.setLevel(call.state["level"])
            logging.disable(call.state["disable"])
        return cap

    def __call__(self, hub, call):
        rec = self.rec
        cap = self.restore(call)
        import logging

        mfa = call.args[0]
        tolerance = call.arg(1, "tolerance", None)
        raise_error = bool(call.arg(2, "raise_error", True))
        warnings = [r for r in (cap.records if cap else []) if r.levelno >= logging.WARNING]
        try:
            bal = ref_balances(mfa)
        except Exception as e:
            rec.skip(MB, f"reference not computable: {type(e).__name__}")
            return
        dy = all_dyadic(mfa)
        tol = default_tolerance(mfa) if tolerance is None else float(tolerance)
        tol_dyadic = tolerance is not None and float(tolerance) * 1024 == round(float(tolerance) * 1024)
        exact = dy and (tol_dyadic or tolerance is None)
        flagged = []
        band = False
        for p, (b, ab, n) in bal.items():
            for lab, v in b.cell.items():
                if isnan(v):
                    flagged.append(p)
                    break
                a = abs(as_float(v)) if not isinstance(v, (int, Fraction)) else abs(v)
                # a balance that is the difference of two single terms is computed exactly by IEEE subtraction whenever it is
                # within a factor of two (Sterbenz) and never rounds a non-zero difference to zero: no error band needed
                gamma = 0.0 if exact else ((2 * EPS * as_float(a) + 4 * EPS * tol) if n <= 2 else 4 * max(n, 1) * EPS * as_float(ab.cell[lab]) + 4 * EPS * tol)
                if not exact and abs(as_float(a) - tol) <= gamma:
                    band = True
                if a > tol:
                    flagged.append(p)
                    break
        nproc = len(mfa.processes)
        shape = f"p={nproc}|f={len(mfa.flows)}|s={len(mfa.stocks)}|att={sum(1 for s in mfa.stocks.values() if s.process is not None)}|idle={sum(1 for p, (b, ab, n) in bal.items() if n == 0)}"
        ints = any(np.asarray(f.values).dtype.kind in "iu" for f in mfa.flows.values())
        sig = f"{shape}|{'dyadic' if dy else 'real'}|tol={'default' if tolerance is None else 'explicit'}|raise={raise_error}|ctx={hub.ctx.get('perturbation')}|int={ints}"
        if band:
            rec.skip(MB, "a balance lies within the float-error band around the tolerance")
            return
        exp = bool(flagged)
        rec.event(MB, sig=sig, cls=f"balance|{'flagged' if exp else 'balanced'}|{'raise' if raise_error else 'warn'}|tol={'default' if tolerance is None else 'explicit'}|{'dyadic' if dy else 'real'}|stocks={'yes' if mfa.stocks else 'no'}",
                  sample={"processes": nproc, "flows": len(mfa.flows), "stocks": len(mfa.stocks), "tolerance": tolerance, "raise_error": raise_error, "expected_flagged_processes": flagged[:4],
                          "perturbation": hub.ctx.get("perturbation")})
        w = {"graph": shape, "tolerance_arg": tolerance, "tolerance_used": tol, "raise_error": raise_error, "expected_flagged": flagged[:5], "perturbation": hub.ctx.get("perturbation"),
             "has_stocks": bool(mfa.stocks), "integer_flows": ints, "nan_present": any(np.isnan(np.asarray(f.values, dtype=float)).any() for f in mfa.flows.values()),
             "exc": (f"{type(call.exc).__name__}: {str(call.exc)[:200]}" if call.exc else None), "warnings": [r.getMessage()[:120] for r in warnings[:2]]}
        worst = max((abs(as_float(v)) for p, (b, ab, n) in bal.items() for v in b.cell.values() if not isnan(v)), default=0.0)
        w["max_abs_balance"] = worst
        cause = self.cause(mfa, bal, call)
        if exp:
            observed = (call.exc is not None) if raise_error else (len(warnings) > 0 and call.exc is None)
            if not observed:
                if not raise_error and call.exc is not None:
                    rec.violation(MB, f"check_mass_balance:crashed-instead-of-warning{cause}", w, prop="C02")
                else:
                    rec.violation(MB, f"check_mass_balance:reported-success-although-a-balance-is-violated{cause}", w, prop="C02")
        else:
            if call.exc is not None:
                rec.violation(MB, f"check_mass_balance:raised-although-every-balance-holds{cause}", w, prop="C02")
            elif warnings:
                rec.violation(MB, "check_mass_balance:warned-although-every-balance-holds", w, prop="C02")

    @staticmethod
    def cause(mfa, bal, call):
        """structural description of the situation (used in mechanism signatures)"""
        tags = []
        if not mfa.stocks:
            tags.append("no-stocks")
        if not mfa.flows:
            tags.append("no-flows")
        if any(n == 0 for (b, ab, n) in bal.values()):
            tags.append("process-without-contributions")
        if any(np.asarray(f.values).dtype.kind in "iu" for f in mfa.flows.values()):
            tags.append("integer-flow")
        if any(isnan(v) for (b, ab, n) in bal.values() for v in b.cell.values()):
            tags.append("nan-balance")
        return (":" + "+".join(tags)) if tags else ""


class FlowsOracle(BalanceOracle):
    def __call__(self, hub, call):
        rec = self.rec
        cap = self.restore(call)
        import logging

        mfa = call.args[0]
        exceptions = list(call.arg(1, "exceptions", []))
        raise_error = bool(call.arg(2, "raise_error", False))
        verbose = bool(call.arg(3, "verbose", False))
        warnings = [r for r in (cap.records if cap else []) if r.levelno >= logging.WARNING]
        tol = default_tolerance(mfa)
        expected = []
        for f in mfa.flows.values():
            if f.name in exceptions or f.from_process.name in exceptions or f.to_process.name in exceptions:
                continue
            v = np.asarray(f.values, dtype=float)
            if np.isnan(v).any() or np.any(v[~np.isnan(v)] < -tol):
                expected.append(f.name)
        names = [f.name for f in mfa.flows.values()]
        amb = any(a != b and a in b for a in names for b in names)
        ints = any(np.asarray(f.values).dtype.kind in "iu" for f in mfa.flows.values())
        nanp = any(np.isnan(np.asarray(f.values, dtype=float)).any() for f in mfa.flows.values())
        sig = f"f={len(names)}|exc={len(exceptions)}|raise={raise_error}|verbose={verbose}|n_exp={len(expected)}|nan={nanp}|int={ints}|stocks={bool(mfa.stocks)}"
        rec.event(MF, sig=sig, cls=f"flows|{'flagged' if expected else 'clean'}|{'raise' if raise_error else 'warn'}|verbose={int(verbose)}|exceptions={'yes' if exceptions else 'no'}",
                  sample={"flows": len(names), "exceptions": exceptions[:3], "raise_error": raise_error, "verbose": verbose, "expected_flagged": expected[:4]})
        tags = []
        if not mfa.stocks:
            tags.append("no-stocks")
        if ints:
            tags.append("integer-flow")
        if nanp:
            tags.append("nan-present")
        if verbose:
            tags.append("verbose")
        cause = (":" + "+".join(tags)) if tags else ""
        w = {"flows": names[:8], "exceptions": exceptions, "raise_error": raise_error, "verbose": verbose, "expected_flagged": expected[:6], "tolerance_used": tol,
             "exc": (f"{type(call.exc).__name__}: {str(call.exc)[:200]}" if call.exc else None), "warnings": [r.getMessage()[:100] for r in warnings[:3]]}
        if raise_error:
            if expected and call.exc is None:
                rec.violation(MF, f"check_flows:did-not-raise-although-a-flow-is-negative-or-nan{cause}", w, prop="C02")
            elif not expected and call.exc is not None:
                rec.violation(MF, f"check_flows:raised-although-all-checked-flows-are-fine{cause}", w, prop="C02")
            elif expected and call.exc is not None and not amb:
                msg = str(call.exc)
                named = [n for n in names if n in msg]
                if not named or any(n not in expected for n in named):
                    rec.violation(MF, f"check_flows:raised-for-another-reason-or-flow{cause}", dict(w, named=named), prop="C02")
            return
        if call.exc is not None:
            rec.violation(MF, f"check_flows:crashed-in-warning-mode{cause}", w, prop="C02")
            return
        if amb:
            rec.skip(MF, "flow names are substrings of each other")
            return
        observed = sorted({n for n in names for r in warnings if n in r.getMessage()})
        if sorted(expected) != observed:
            missing = [n for n in expected if n not in observed]
            extra = [n for n in observed if n not in expected]
            mech = "check_flows:flow-not-flagged" if missing else "check_flows:flagged-a-flow-that-is-fine-or-excepted"
            rec.violation(MF, mech + cause, dict(w, missing=missing, extra=extra), prop="C02")
        if not expected and warnings:
            rec.violation(MF, "check_flows:warned-although-all-checked-flows-are-fine", w, prop="C02")


def register(hub):
    rec = hub.rec
    rec.require(MB, 50)
    rec.require(MF, 30)
    hub.on("MFASystem.check_mass_balance", BalanceOracle(rec))
    hub.on("MFASystem.check_flows", FlowsOracle(rec))


# ---------------------------------------------------------------------------
# workload


def build_case(fd, rng, tier, i):
    d = SY.gen_def(rng, max_proc=6, max_flows=12 if tier == "thorough" else 8, self_loops=0.5 if i % 3 == 1 else 0.0, big_system=0.04)
    for j, f in enumerate(d.flows):
        f["override"] = f"fl{j:02d}q"
    if i % 5 == 0:
        d.stocks = []
    regime = "dyadic" if rng.random() < 0.6 else "real"
    balanced = rng.random() < 0.75
    same_dims = rng.random() < 0.4
    letters = [x[0] for x in d.dims]
    if same_dims:
        for f in d.flows:
            f["letters"] = tuple(str(x) for x in rng.permutation(letters))
        for s in d.stocks:
            s["letters"] = ("t",) + tuple(str(x) for x in rng.permutation([l for l in letters if l != "t"]))
    closing = {}
    if balanced:
        # one closing flow per non-sysenv process that has contributions, over the common letters of the others
        for p in d.processes[1:]:
            contrib = [set(f["letters"]) for f in d.flows if p in (f["src"], f["dst"])] + [set(s["letters"]) for s in d.stocks if s["process"] == p]
            if not contrib:
                continue
            common = set.intersection(*contrib)
            cl = tuple(str(x) for x in rng.permutation(sorted(common)))
            f = dict(src=p, dst="sysenv", letters=cl, override=f"cl{len(d.flows):02d}q")
            closing[p] = f
            d.flows.append(f)
    mfa = SY.build_system(fd, d)
    size_of = {x[0]: len(x[2]) for x in d.dims}

    def vals(shape):
        if regime == "dyadic":
            return rng.integers(0, 2048, size=shape).astype(float) / 8.0
        return rng.uniform(0.0, 10.0 ** rng.uniform(0, 4), size=shape)

    for f in d.flows:
        if f["override"].startswith("cl"):
            continue
        fl = mfa.flows[SY.flow_name(d, f)]
        fl[...] = vals(fl.dims.shape)
    for s in d.stocks:
        st = mfa.stocks[s["name"]]
        st.inflow[...] = vals(st.dims.shape)
        st.outflow[...] = vals(st.dims.shape)
        st.stock[...] = vals(st.dims.shape) * 10
    # closing flows by label (independent of flodym arithmetic)
    for p, f in closing.items():
        fl = mfa.flows[f["override"]]
        cl = list(f["letters"])
        tot = None
        for g in mfa.flows.values():
            if g is fl:
                continue
            for sign, proc in ((+1, g.to_process.name), (-1, g.from_process.name)):
                if proc == p:
                    m = larr_of(g).marginal(cl).map(lambda v: sign * v)
                    tot = m if tot is None else tot.elementwise(m, lambda a, b: a + b)
        for s in mfa.stocks.values():
            if s.process is not None and s.process.name == p:
                i_, o_ = larr_of(s.inflow), larr_of(s.outflow)
                chg = i_.elementwise(o_.reorder(i_.letters), lambda a, b: a - b).marginal(cl).map(lambda v: -v)
                tot = chg if tot is None else tot.elementwise(chg, lambda a, b: a + b)
        if tot is not None:
            fl[...] = tot.to_ndarray()
    return d, mfa, regime, balanced


def tiny_chain_case(rec, hub, rng):
    """sysenv -> A -> sysenv with identical dims: every balance is one subtraction, so rounding-size imbalances are judged exactly;
    explicit tolerances include 0 (exactly balanced passes, the smallest imbalance is flagged)"""
    fd = hub.fd
    d = SY.Def()
    d.dims = [("t", "time", [2000, 2001, 2002], int), ("r", "region", ["EUR", "USA"], str)]
    d.processes = ["sysenv", "use phase"]
    letters = ("t", "r") if rng.random() < 0.5 else ("r", "t")
    d.flows = [dict(src="sysenv", dst="use phase", letters=letters, override="fl00q"), dict(src="use phase", dst="sysenv", letters=letters[::-1] if rng.random() < 0.5 else letters, override="fl01q")]
    mfa = SY.build_system(fd, d)
    fin, fout = mfa.flows["fl00q"], mfa.flows["fl01q"]
    v = rng.uniform(0.1, 10.0, size=fin.dims.shape)
    fin[...] = v
    out = fin.sum_to(fout.dims.letters).values.copy()  # same entries, the other flow's order (no summation involved)
    k = int(rng.integers(0, 4))
    pos = tuple(int(q) for q in np.unravel_index(int(rng.integers(0, out.size)), out.shape))
    if k:
        out[pos] = np.nextafter(out[pos], np.inf if rng.random() < 0.5 else -np.inf) if k == 1 else out[pos] * (1 + k * EPS)
    fout[...] = out
    hub.ctx["perturbation"] = f"tiny-chain:{'balanced' if k == 0 else 'ulps'}"
    for tol in (0.0, 0, None, float(np.float64(0.0)), 1e-12):
        for raise_error in (True, False):
            try:
                mfa.check_mass_balance(tolerance=tol, raise_error=raise_error) if tol is not None else mfa.check_mass_balance(raise_error=raise_error)
            except Exception:
                pass
    hub.ctx.pop("perturbation", None)


def integer_flows_case(rec, hub, rng):
    """every flow holds whole numbers in an integer dtype (piece counts), the stock attached to the process holds floats whose net
    addition closes the balance only up to rounding: the default tolerance is scaled to the largest magnitude, whatever the dtypes"""
    fd = hub.fd
    d = SY.Def()
    d.dims = [("t", "time", [2000, 2001, 2002], int), ("r", "region", ["EUR", "USA"], str)]
    d.processes = ["sysenv", "use phase"]
    d.flows = [dict(src="sysenv", dst="use phase", letters=("t", "r"), override="fl00q"), dict(src="use phase", dst="sysenv", letters=("t", "r"), override="fl01q")]
    d.stocks = [dict(name="in use", process="use phase", letters=("t", "r"), cls="SimpleFlowDrivenStock", lm=None, time_letter="t", solver="manual")]
    mfa = SY.build_system(fd, d)
    fin, fout = mfa.flows["fl00q"], mfa.flows["fl01q"]
    a = rng.integers(1000, 100000, size=fin.dims.shape)
    b = rng.integers(1, 1000, size=fin.dims.shape)
    fin.set_values(a.astype(np.int64 if rng.random() < 0.5 else np.int32))
    fout.set_values(b.astype(np.int64))
    st = mfa.stocks["in use"]
    k = int(rng.integers(0, 4))  # 0: closes exactly; 1-2: closes up to a few ulps; 3: off by far more than the tolerance
    rel = [0.0, EPS, 3 * EPS, 1e-6][k]
    st.inflow[...] = a.astype(float) * (1.0 + rel)
    st.outflow[...] = b.astype(float)
    st.stock[...] = np.cumsum(a - b, axis=0).astype(float)
    hub.ctx["perturbation"] = f"integer-flows:{['exact', 'ulps', 'ulps', 'far'][k]}"
    for raise_error in (True, False):
        try:
            mfa.check_mass_balance(raise_error=raise_error)
        except Exception:
            pass
        try:
            mfa.check_flows(raise_error=raise_error)
        except Exception:
            pass
    # a system without any flow (only stocks): the checks still have a tolerance
    mfa0 = fd.MFASystem(dims=mfa.dims, parameters={}, processes=mfa.processes, flows={}, stocks=mfa.stocks)
    for raise_error in (True, False):
        try:
            mfa0.check_mass_balance(raise_error=raise_error)
        except Exception:
            pass
    hub.ctx.pop("perturbation", None)


def many_small_residuals_case(rec, hub, rng):
    """sysenv -> A -> sysenv over thousands of label combinations; every single balance is off by a few rounding errors (far inside the
    default tolerance, which bounds each ENTRY in absolute value), however many entries there are"""
    fd = hub.fd
    d = SY.Def()
    nt, nr = int(rng.integers(60, 110)), int(rng.integers(60, 110))
    d.dims = [("t", "time", list(range(1900, 1900 + nt)), int), ("r", "region", [f"r{j:03d}" for j in range(nr)], str)]
    d.processes = ["sysenv", "use phase"]
    d.flows = [dict(src="sysenv", dst="use phase", letters=("t", "r"), override="fl00q"), dict(src="use phase", dst="sysenv", letters=("t", "r"), override="fl01q")]
    mfa = SY.build_system(fd, d)
    v = rng.uniform(50.0, 100.0, size=(nt, nr))
    k = rng.integers(-40, 41, size=(nt, nr)).astype(float)
    mfa.flows["fl00q"][...] = v
    mfa.flows["fl01q"][...] = v * (1.0 + k * EPS)  # each entry within ~40 rounding errors of its partner; the tolerance is 100 of them at the largest magnitude
    hub.ctx["perturbation"] = "many-small-residuals"
    for raise_error in (True, False):
        try:
            mfa.check_mass_balance(raise_error=raise_error)
        except Exception:
            pass
    hub.ctx.pop("perturbation", None)


def perturb_pair(mfa, rng, delta):
    """+delta at one entry and -delta at another entry of the same array: totals are preserved, balances by label are not"""
    arrays = [f for f in mfa.flows.values() if f.values.size > 1 and f.values.dtype.kind == "f"]
    if not arrays:
        return None
    a = arrays[int(rng.integers(0, len(arrays)))]
    v = a.values
    i, j = rng.choice(v.size, size=2, replace=False)
    pi, pj = tuple(int(x) for x in np.unravel_index(int(i), v.shape)), tuple(int(x) for x in np.unravel_index(int(j), v.shape))
    oi, oj = v[pi].copy(), v[pj].copy()
    v[pi] = oi + delta
    v[pj] = oj - delta

    def undo():
        v[pi] = oi
        v[pj] = oj

    return undo


def perturb(mfa, rng, delta):
    """add delta to (or plant NaN in) one entry of one flow / stock inflow; returns an undo function"""
    arrays = [f for f in mfa.flows.values()] + [s.inflow for s in mfa.stocks.values() if s.process is not None]
    if not arrays:
        return None
    a = arrays[int(rng.integers(0, len(arrays)))]
    v = a.values
    if v.dtype.kind not in "f":
        return None
    pos = tuple(int(x) for x in np.unravel_index(int(rng.integers(0, v.size)), v.shape)) if v.size else None
    if pos is None:
        return None
    old = v[pos].copy()
    v[pos] = np.nan if delta is None else old + delta

    def undo():
        v[pos] = old

    return undo


def one(rec, hub, seed, tier, i):
    fd = hub.fd
    rng = case_nprng(seed, "c02.system", 0, i)
    d, mfa, regime, balanced = build_case(fd, rng, tier, i)
    explicit = [None, None, 0.125, 2.0 ** -6, 1.0][int(rng.integers(0, 5))]
    if regime == "real" and explicit is not None and rng.random() < 0.5:
        explicit = float(rng.uniform(1e-6, 1e-2))

    def call_balance(tol, raise_error):
        try:
            if rng.random() < 0.3:
                mfa.check_mass_balance(tol, raise_error)  # the same arguments by position
            else:
                mfa.check_mass_balance(tolerance=tol, raise_error=raise_error) if tol is not None else mfa.check_mass_balance(raise_error=raise_error)
        except Exception:
            pass

    def call_flows(**kw):
        try:
            if kw and rng.random() < 0.3:
                mfa.check_flows(kw.get("exceptions", []), kw.get("raise_error", False), kw.get("verbose", False))  # by position
            else:
                mfa.check_flows(**kw)
        except Exception:
            pass

    # unperturbed
    hub.ctx["perturbation"] = "none"
    for raise_error in (True, False):
        call_balance(explicit, raise_error)
        call_balance(None, raise_error)
    tol = explicit if explicit is not None else default_tolerance(mfa)
    if regime == "dyadic" and explicit is None:
        deltas = [("8tol", 1.0), ("1e3tol", 128.0), ("nan", None), ("tiny", 2.0 ** -10)]
    elif regime == "dyadic":
        deltas = [("tol/8", tol / 8), ("tol/2", tol / 2), ("tol", tol), ("tol+ulp", tol + 2.0 ** -10), ("2tol", 2 * tol), ("8tol", 8 * tol), ("1e3tol", 1024 * tol), ("nan", None)]
    else:
        deltas = [("tol/8", tol / 8), ("2tol", 2 * tol), ("8tol", 8 * tol), ("1e3tol", 1e3 * tol), ("nan", None)]
    for name, dl in deltas:
        undo = perturb(mfa, rng, dl)
        if undo is None:
            continue
        hub.ctx["perturbation"] = name
        try:
            for raise_error in (True, False):
                call_balance(explicit, raise_error)
            if name in ("nan", "1e3tol"):
                call_balance(None, bool(rng.integers(0, 2)))
        finally:
            undo()
    # cancelling pairs: the grand total of the array is unchanged, the by-label balance is not
    for name, dl in [d_ for d_ in deltas if d_[1] is not None][-3:]:
        undo = perturb_pair(mfa, rng, dl)
        if undo is None:
            continue
        hub.ctx["perturbation"] = "pair:" + name
        try:
            for raise_error in (True, False):
                call_balance(explicit, raise_error)
        finally:
            undo()
    # check_flows: negative entries, NaN, exceptions, verbose
    hub.ctx["perturbation"] = "flows"
    flows = list(mfa.flows.values())
    call_flows()
    call_flows(raise_error=True)
    if flows:
        for trial in range(3):
            k = int(rng.integers(1, min(3, len(flows)) + 1))
            undo_list = []
            for f in [flows[j] for j in rng.choice(len(flows), size=k, replace=False)]:
                v = f.values
                if v.size == 0 or v.dtype.kind != "f":
                    continue
                pos = tuple(int(x) for x in np.unravel_index(int(rng.integers(0, v.size)), v.shape))
                old = v[pos].copy()
                kind = rng.choice(["neg", "nan", "tiny-neg"])
                v[pos] = {"neg": -abs(old) - 1.0, "nan": np.nan, "tiny-neg": -default_tolerance(mfa) / 4}[str(kind)]
                undo_list.append((v, pos, old))
            exc = []
            if rng.random() < 0.5:
                pick = flows[int(rng.integers(0, len(flows)))]
                exc = [str(rng.choice([pick.name, pick.from_process.name, pick.to_process.name]))]
            for kw in (dict(exceptions=exc), dict(exceptions=exc, raise_error=True), dict(exceptions=exc, verbose=True), dict(verbose=True, raise_error=True)):
                call_flows(**kw)
            for v, pos, old in undo_list:
                v[pos] = old
    # a system assembled by hand whose flows dictionary is keyed by other labels than the flows' names: exceptions name FLOWS (or processes)
    if flows and i % 3 == 1:
        rekeyed = fd.MFASystem(dims=mfa.dims, parameters=mfa.parameters, processes=mfa.processes, flows={f"key {j}": f for j, f in enumerate(mfa.flows.values())}, stocks=mfa.stocks)
        hub.ctx["perturbation"] = "flows-rekeyed"
        f0 = flows[int(rng.integers(0, len(flows)))]
        if f0.values.size and f0.values.dtype.kind == "f":
            pos = tuple(int(x) for x in np.unravel_index(int(rng.integers(0, f0.values.size)), f0.values.shape))
            old = f0.values[pos].copy()
            f0.values[pos] = -abs(old) - 1.0 if rng.random() < 0.6 else np.nan
            keys = list(rekeyed.flows.keys())
            for exc in ([f0.name], [next(k_ for k_, f_ in rekeyed.flows.items() if f_.name == f0.name)], [flows[0].name], []):
                for kw in (dict(exceptions=exc), dict(exceptions=exc, raise_error=True)):
                    try:
                        rekeyed.check_flows(**kw)
                    except Exception:
                        pass
            f0.values[pos] = old
        for raise_error in (True, False):
            try:
                rekeyed.check_mass_balance(raise_error=raise_error)
            except Exception:
                pass
    # a system assembled by hand whose processes dictionary is not in id order (the system environment is a process by NAME and id 0,
    # wherever it stands in the dictionary): the verdicts are those of the same system
    if len(mfa.processes) > 1 and i % 3 == 2:
        order = [list(mfa.processes)[j] for j in rng.permutation(len(mfa.processes))]
        if order[0] == "sysenv":
            order = order[1:] + order[:1]
        shuffled = fd.MFASystem(dims=mfa.dims, parameters=mfa.parameters, processes={n: mfa.processes[n] for n in order}, flows=mfa.flows, stocks=mfa.stocks)
        hub.ctx["perturbation"] = "processes-dict-out-of-id-order"
        for raise_error in (True, False):
            try:
                shuffled.check_mass_balance(raise_error=raise_error)
            except Exception:
                pass
        undo = perturb(mfa, rng, 1e3 * (explicit if explicit is not None else default_tolerance(mfa)))
        if undo is not None:
            try:
                for raise_error in (True, False):
                    try:
                        shuffled.check_mass_balance(raise_error=raise_error)
                    except Exception:
                        pass
            finally:
                undo()
    # a system re-assembled from copies: flows deep-copied one by one (each carries its own copies of its processes), the process
    # dictionary rebuilt from the names - the same system as far as names, ids and values go
    if flows and i % 5 == 3:
        try:
            re_procs = fd.make_processes(list(mfa.processes.keys())) if list(mfa.processes.keys())[0] == "sysenv" else dict(mfa.processes)
            how_c = int(rng.integers(0, 3))
            import copy as _copy

            re_flows = {n_: (f_.model_copy(deep=True) if how_c == 0 else _copy.deepcopy(f_) if how_c == 1 else type(f_).model_validate(f_.model_dump())) for n_, f_ in mfa.flows.items()}
            rebuilt = fd.MFASystem(dims=mfa.dims, parameters=mfa.parameters, processes=re_procs, flows=re_flows, stocks=mfa.stocks)
        except Exception:
            rebuilt = None
        if rebuilt is not None:
            hub.ctx["perturbation"] = "system-rebuilt-from-copies"
            for raise_error in (True, False):
                try:
                    rebuilt.check_mass_balance(raise_error=raise_error)
                except Exception:
                    pass
            fl_ = [f_ for f_ in rebuilt.flows.values() if f_.values.size and f_.values.dtype.kind == "f"]
            if fl_:
                f0_ = fl_[int(rng.integers(0, len(fl_)))]
                pos_ = tuple(int(x_) for x_ in np.unravel_index(int(rng.integers(0, f0_.values.size)), f0_.values.shape))
                old_ = f0_.values[pos_].copy()
                f0_.values[pos_] = old_ + 1e3 * (abs(float(old_)) + (explicit if explicit is not None else default_tolerance(rebuilt)) + 1.0)
                for raise_error in (True, False):
                    try:
                        rebuilt.check_mass_balance(raise_error=raise_error)
                    except Exception:
                        pass
                f0_.values[pos_] = old_
    # the SAME system object, already checked several times, is re-wired in place (no name changes): a stock or a flow is attached to a
    # process the system does not have (that check may be refused; it is not judged), repaired, moved to another process of the
    # system, and moved back - every check concerns the wiring of the moment
    if i % 2 == 0 and len(mfa.processes) > 1:
        own = [s_ for s_ in mfa.stocks.values() if s_.process is not None]
        foreign = fd.Process(name="a process the system does not have", id=len(mfa.processes) + 5)
        others = list(mfa.processes.values())
        big = 1e3 * (explicit if explicit is not None else default_tolerance(mfa))
        for trial in range(2):
            if own and (not flows or rng.random() < 0.6):
                obj, attr = own[int(rng.integers(0, len(own)))], "process"
            elif flows:
                obj, attr = flows[int(rng.integers(0, len(flows)))], ("from_process", "to_process")[int(rng.integers(0, 2))]
            else:
                break
            home = getattr(obj, attr)
            try:
                setattr(obj, attr, foreign)
                with hub.pause():
                    try:
                        mfa.check_mass_balance(raise_error=bool(rng.integers(0, 2)))
                    except Exception:
                        pass
                setattr(obj, attr, home)
                hub.ctx["perturbation"] = "re-wired:repaired-after-a-refused-check"
                for raise_error in (True, False):
                    call_balance(explicit, raise_error)
                undo = perturb(mfa, rng, big)
                if undo is not None:
                    try:
                        call_balance(explicit, bool(rng.integers(0, 2)))
                    finally:
                        undo()
                elsewhere = [p_ for p_ in others if p_.name != home.name and (attr != "process" or p_.name != "sysenv")]
                if elsewhere:
                    setattr(obj, attr, elsewhere[int(rng.integers(0, len(elsewhere)))])
                    hub.ctx["perturbation"] = "re-wired:moved-to-another-process"
                    for raise_error in (True, False):
                        call_balance(explicit, raise_error)
                    setattr(obj, attr, home)
                    hub.ctx["perturbation"] = "re-wired:moved-back"
                    call_balance(explicit, bool(rng.integers(0, 2)))
            finally:
                setattr(obj, attr, home)
    # integer-dtype flows
    if flows and i % 4 == 0:
        f = flows[0]
        f[...] = rng.integers(0, 50, size=f.dims.shape)
        hub.ctx["perturbation"] = "integer-flow"
        call_balance(None, False)
        call_balance(0.5, True)
        call_flows()
    hub.ctx.pop("perturbation", None)


def run(rec, hub, tier, seed, shard, nshards, budget):
    register(hub)
    n = 260 if tier == "quick" else 3000
    for kk in range(n):
        if not budget.ok():
            break
        i = kk * nshards + shard
        rec.set_case(driver="c02.system", seed=seed, tier=tier, shard=shard, nshards=nshards, idx=i)
        one(rec, hub, seed, tier, i)
        if kk % 5 == 0:
            rec.set_case(driver="c02.tiny", seed=seed, tier=tier, shard=shard, nshards=nshards, idx=i)
            tiny_chain_case(rec, hub, case_nprng(seed, "c02.tiny", 0, i))
        if kk % 60 == 7:
            rec.set_case(driver="c02.manysmall", seed=seed, tier=tier, shard=shard, nshards=nshards, idx=i)
            many_small_residuals_case(rec, hub, case_nprng(seed, "c02.manysmall", 0, i))
        if kk % 5 == 2:
            rec.set_case(driver="c02.intflows", seed=seed, tier=tier, shard=shard, nshards=nshards, idx=i)
            integer_flows_case(rec, hub, case_nprng(seed, "c02.intflows", 0, i))


def replay(rec, hub, case):
    register(hub)
    rec.set_case(**case)
    if case["driver"] == "c02.manysmall":
        many_small_residuals_case(rec, hub, case_nprng(case["seed"], "c02.manysmall", 0, case["idx"]))
        return
    if case["driver"] == "c02.intflows":
        integer_flows_case(rec, hub, case_nprng(case["seed"], "c02.intflows", 0, case["idx"]))
        return
    if case["driver"] == "c02.tiny":
        tiny_chain_case(rec, hub, case_nprng(case["seed"], "c02.tiny", 0, case["idx"]))
        return
    one(rec, hub, case["seed"], case.get("tier", "quick"), case["idx"])
