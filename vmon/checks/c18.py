"""C18 — systems built from definitions and files match what was defined."""

from __future__ import annotations

import os
import pathlib
import shutil
import tempfile

import numpy as np
import pandas as pd

from ..core import case_nprng
from ..drivers import system as SY

LEVEL = "exploration"
BUDGET = {"quick": 55, "thorough": 420}
SHARDS = {"quick": 1, "thorough": 16}
RULE = (
    "generated definitions (1-7 processes, 0-12 flows incl. parallel ones with overriding names, 0-3 stocks of all classes / lifetime models / "
    "solvers with or without process, 0-4 parameters, dimension subsets in any order, three naming functions) are built through "
    "make_processes / make_empty_flows / make_empty_stocks and through from_csv / from_excel / from_data_reader from files the driver "
    "writes (dimension files as one row or one column, with and without the name as header, CSV and XLSX, named sheet or first sheet; "
    "parameter files long or wide); every attribute of the built system is compared with the definition: process ids and order, flow "
    "source/target objects, names, dims (letters in listed order, items of the system), zero values, stock class / lifetime-model class / "
    "solver / time letter / process, parameter names, dims and values by label.  Ill-formed definitions (sysenv not first, undefined "
    "dimension or process, missing or superfluous lifetime model, time not first) must be refused.  Thorough adds hostile item labels.  "
    "Configuration signature = (route, counts, naming, orientation/header/sheet style)"
)
MB = "built-system-matches-definition"
MR = "ill-formed-definition-refused"
MD = "dimension-files"

# labels that coincide with the dimension's own letter or look like its name (only the NAME as first cell is a header)
OWN_LETTER = [["r", "q", "z"], ["x", "r", "y"], ["Region", "b", "c"], ["regions", "region ", "r"]]
HOSTILE = [["A1", "17", "B2", "2.5"], ["EU", "NA", "SA"], ["01", "02", "10"], ["a,b", "c d", 'q"r'], ["null", "x", "y"], [" lead", "trail ", "mid dle"], ["1e3", "2e3", "abc"], ["True", "False", "maybe"]]
ALTERED_BY_CSV_INFERENCE = {"NA", "null", "NULL", "nan", "NaN", "N/A", "n/a", "", "None", "<NA>", "#N/A", "NULL", "-nan", "-NaN", "1.#IND", "1.#QNAN", "#NA", "#N/A N/A", "-1.#IND", "-1.#QNAN"}


def label_is_altered_by_type_inference(labels, orient="column"):
    """structural predicate of finding F19: pandas' default parsing of a CSV changes these labels before flodym sees them.
    In a one-row file every cell is a column of its own and is parsed individually; in a one-column file the column is
    parsed as a whole (numbers only if every cell is numeric)."""
    labs = [str(x) for x in labels]
    if any(l in ALTERED_BY_CSV_INFERENCE for l in labs):
        return True

    def numeric_changed(l):
        try:
            float(l)
        except ValueError:
            return False
        return str(_num(l)) != l

    def numeric(l):
        try:
            float(l)
            return True
        except ValueError:
            return False

    boolish = ("True", "False", "true", "false", "TRUE", "FALSE")
    if orient == "row":
        return any(numeric_changed(l) or l in boolish for l in labs)
    if all(numeric(l) for l in labs) and any(numeric_changed(l) for l in labs):
        return True
    return all(l in boolish for l in labs)


def _num(l):
    f = float(l)
    return int(f) if f == int(f) and "." not in l and "e" not in l.lower() else f


def compare_system(rec, fd, d, mfa, route, param_truth=None, sig=""):
    def bad(mech, **w):
        w.update(route=route, processes=d.processes[:6], naming=d.naming)
        rec.violation(MB, mech, w)

    rec.event(MB, sig=f"{route}|p={len(d.processes)}|f={len(d.flows)}|s={len(d.stocks)}|par={len(d.parameters)}|{d.naming}|{sig}", cls=f"{route}|{d.naming}|stocks={len(d.stocks)}",
              sample={"route": route, "processes": d.processes, "flows": [(f["src"], f["dst"], f["letters"], f["override"]) for f in d.flows[:4]], "stocks": [(s["name"], s["cls"], s["lm"], s["solver"]) for s in d.stocks]})
    # dims
    got = [(x.letter, x.name, list(x.items)) for x in mfa.dims]
    exp = [(l, n, list(it)) for l, n, it, dt in d.dims]
    if got != exp:
        bad("system-dimensions-differ", got=[(g[0], g[2][:4]) for g in got], expected=[(e[0], e[2][:4]) for e in exp])
        return
    items = {l: list(it) for l, n, it, dt in d.dims}
    # processes
    if list(mfa.processes.keys()) != d.processes or [p.id for p in mfa.processes.values()] != list(range(len(d.processes))) or [p.name for p in mfa.processes.values()] != d.processes:
        bad("process-ids-or-order-differ", got=[(p.name, p.id) for p in mfa.processes.values()])
    # flows
    names = [SY.flow_name(d, f) for f in d.flows]
    uniq = len(set(names)) == len(names)
    if uniq and list(mfa.flows.keys()) != names:
        bad("flow-names-differ", got=list(mfa.flows.keys())[:6], expected=names[:6])
    elif uniq:
        for f, n in zip(d.flows, names):
            fl = mfa.flows[n]
            if fl.name != n:
                bad("flow-name-attribute-differs", got=fl.name, expected=n)
            if fl.from_process is not mfa.processes[f["src"]] and (fl.from_process.name, fl.from_process.id) != (f["src"], d.processes.index(f["src"])):
                bad("flow-source-differs", flow=n, got=fl.from_process.name, expected=f["src"])
            if (fl.from_process.name, fl.to_process.name) != (f["src"], f["dst"]) or (fl.from_process.id, fl.to_process.id) != (d.processes.index(f["src"]), d.processes.index(f["dst"])):
                bad("flow-source-or-target-differs", flow=n, got=[fl.from_process.name, fl.to_process.name], expected=[f["src"], f["dst"]])
            if tuple(fl.dims.letters) != tuple(f["letters"]):
                bad("flow-dimension-order-differs", flow=n, got=list(fl.dims.letters), expected=list(f["letters"]))
            elif [list(x.items) for x in fl.dims] != [items[l] for l in f["letters"]]:
                bad("flow-items-differ", flow=n)
            if not isinstance(fl.values, np.ndarray) or fl.values.shape != tuple(len(items[l]) for l in f["letters"]) or np.any(fl.values != 0):
                bad("flow-not-zero-valued-of-right-shape", flow=n)
            if type(fl).__name__ != "Flow":
                bad("flow-class-differs", got=type(fl).__name__)
    # stocks
    snames = [s["name"] for s in d.stocks]
    if len(set(snames)) == len(snames):
        if list(mfa.stocks.keys()) != snames:
            bad("stock-names-differ", got=list(mfa.stocks.keys()), expected=snames)
        else:
            for s in d.stocks:
                st = mfa.stocks[s["name"]]
                if (type(st) is not s["cls_obj"]) if s.get("cls_obj") is not None else (type(st).__name__ != s["cls"]):
                    bad("stock-class-differs", stock=s["name"], got=type(st).__name__, expected=s["cls"] if s.get("cls_obj") is None else s["cls_obj"].__name__)
                    continue
                if s["lm"] is not None and type(st.lifetime_model).__name__ != s["lm"]:
                    bad("stock-lifetime-model-class-differs", stock=s["name"], got=type(st.lifetime_model).__name__, expected=s["lm"])
                if s["cls"] == "StockDrivenDSM" and st.solver != s["solver"]:
                    bad("stock-solver-differs-from-definition", stock=s["name"], got=st.solver, expected=s["solver"])
                if st.time_letter != s["time_letter"]:
                    bad("stock-time-letter-differs", stock=s["name"])
                if s["lm"] is not None and st.lifetime_model.time_letter != s["time_letter"]:
                    bad("stock-lifetime-model-time-letter-differs", stock=s["name"], got=st.lifetime_model.time_letter, expected=s["time_letter"])
                if (st.process.name if st.process is not None else None) != s["process"]:
                    bad("stock-process-differs", stock=s["name"], got=st.process.name if st.process else None, expected=s["process"])
                if st.process is not None and st.process.id != d.processes.index(s["process"]):
                    bad("stock-process-id-differs", stock=s["name"])
                for arr in (st.stock, st.inflow, st.outflow):
                    if tuple(arr.dims.letters) != tuple(s["letters"]) or [list(x.items) for x in arr.dims] != [items[l] for l in s["letters"]]:
                        bad("stock-array-dims-differ", stock=s["name"], got=list(arr.dims.letters), expected=list(s["letters"]))
                    elif np.any(arr.values != 0):
                        bad("stock-array-not-zero", stock=s["name"])
                if tuple(st.dims.letters) != tuple(s["letters"]):
                    bad("stock-dims-differ", stock=s["name"])
                if s["lm"] is not None and tuple(st.lifetime_model.dims.letters) != tuple(s["letters"]):
                    bad("stock-lifetime-model-dims-differ", stock=s["name"])
    # parameters
    if list(mfa.parameters.keys()) != [p["name"] for p in d.parameters]:
        bad("parameter-names-differ", got=list(mfa.parameters.keys()))
    else:
        for p in d.parameters:
            par = mfa.parameters[p["name"]]
            if tuple(par.dims.letters) != tuple(p["letters"]) or [list(x.items) for x in par.dims] != [items[l] for l in p["letters"]]:
                bad("parameter-dims-differ", parameter=p["name"], got=list(par.dims.letters), expected=list(p["letters"]))
            elif param_truth is not None and not np.array_equal(par.values, param_truth[p["name"]]):
                bad("parameter-values-differ-from-file", parameter=p["name"])
            if par.name != p["name"] and route != "user-written-reader":  # what a user's own reader calls its objects is the user's business
                bad("parameter-name-attribute-differs", got=par.name, expected=p["name"])
    # each stock, flow and parameter is "over exactly the listed dimensions": they stay so when the user edits the system's own
    # dimension set in place afterwards (e.g. adds a scenario dimension for later use)
    def dims_of_everything():
        out = {}
        for n_, st_ in mfa.stocks.items():
            out[("stock", n_)] = (tuple(st_.dims.letters), tuple(st_.stock.dims.letters), tuple(np.shape(st_.stock.values)))
            if hasattr(st_, "lifetime_model") and st_.lifetime_model is not None and not isinstance(st_.lifetime_model, type):
                out[("lifetime model", n_)] = tuple(st_.lifetime_model.dims.letters)
        for n_, f_ in mfa.flows.items():
            out[("flow", n_)] = tuple(f_.dims.letters)
        for n_, p_ in mfa.parameters.items():
            out[("parameter", n_)] = tuple(p_.dims.letters)
        return out

    try:
        before_edit = dims_of_everything()
        probe_dim = fd.Dimension(letter="Ψ", name="added by the user later", items=["u1", "u2"])
        mfa.dims.append(probe_dim, inplace=True)
        try:
            after_edit = dims_of_everything()
        finally:
            mfa.dims.drop("Ψ", inplace=True)
        changed = [k_ for k_ in before_edit if before_edit[k_] != after_edit.get(k_)]
        if changed:
            bad("editing-the-system's-dimension-set-in-place-changed-the-dimensions-of", what=[f"{a_} {b_}" for a_, b_ in changed][:4])
    except Exception as e:
        bad("editing-the-system's-dimension-set-in-place-raised", exc=repr(e)[:200])


def write_dimension_file(path, name, items, style, xlsx=False, sheet=None, decoy_sheet=False):
    orient, header = style
    cells = ([name] if header else []) + list(items)
    df = pd.DataFrame([cells]) if orient == "row" else pd.DataFrame({0: cells})
    if xlsx:
        with pd.ExcelWriter(path) as w:
            df.to_excel(w, index=False, header=False, sheet_name=sheet or "Sheet1")
            if decoy_sheet:
                pd.DataFrame({0: ["decoy", "decoy2"]}).to_excel(w, index=False, header=False, sheet_name="zzz other")
    else:
        df.to_csv(path, index=False, header=False)


def write_parameter_file(path, d, p, values, rng, xlsx=False, sheet=None, decoy_sheet=False):
    names = {l: n for l, n, it, dt in d.dims}
    items = {l: list(it) for l, n, it, dt in d.dims}
    letters = list(p["letters"])
    rows = []
    for idx in np.ndindex(*values.shape):
        rows.append({names[l]: items[l][i] for l, i in zip(letters, idx)} | {"value": float(values[idx])})
    df = pd.DataFrame(rows, columns=[names[l] for l in letters] + ["value"])
    if len(df) > 1:
        df = df.iloc[rng.permutation(len(df))]
    if xlsx:
        with pd.ExcelWriter(path) as w:
            df.to_excel(w, index=False, sheet_name=sheet or "Sheet1")
            if decoy_sheet:
                pd.DataFrame({"decoy": [1, 2]}).to_excel(w, index=False, sheet_name="zzz other")
    else:
        df.to_csv(path, index=False)


def files_case(rec, hub, rng, tier, d, tmpdir, i):
    """from_csv / from_excel / from_data_reader from files the driver writes"""
    fd = hub.fd
    dimdefs, flows, stocks, params = SY.fd_definitions(fd, d)
    # drop zero-dimensional parameters (a frame needs at least one dimension column)
    d.parameters = [p for p in d.parameters if len(p["letters"]) > 0]
    dimdefs, flows, stocks, params = SY.fd_definitions(fd, d)
    definition = fd.MFADefinition(dimensions=dimdefs, processes=d.processes, flows=flows, stocks=stocks, parameters=params)
    route = ["csv", "xlsx-named-sheets", "xlsx-first-sheet", "data_reader", "csv", "user-written-reader"][(2 * (i // 3) + (i % 3 == 2)) % 6]  # files cases run for i % 3 in (1, 2): every route comes up
    xlsx = route.startswith("xlsx")
    ext = "xlsx" if xlsx else "csv"
    dim_files, par_files, dim_sheets, par_sheets = {}, {}, {}, {}
    truth = {}
    styles = {}
    for l, n, it, dt in d.dims:
        style = (str(rng.choice(["row", "column"])), bool(rng.integers(0, 2)))
        styles[l] = style
        path = os.path.join(tmpdir, f"dim_{i % 2}_{l}.{ext}")  # paths recur with new content: nothing may be remembered per path
        sheet = f"sheet {l}" if route == "xlsx-named-sheets" else None
        write_dimension_file(path, n, it, style, xlsx=xlsx, sheet=sheet, decoy_sheet=xlsx)
        dim_files[n] = path if i % 5 else pathlib.Path(path)  # paths as text or as pathlib.Path objects
        dim_sheets[n] = sheet
    size = {l: len(it) for l, n, it, dt in d.dims}
    for p in d.parameters:
        # values stay clear of every item set, also after truncation to int (the converter tests the value column against item sets)
        vals = 4096.0 + (rng.integers(1, 4000, size=tuple(size[l] for l in p["letters"])).astype(float)) / 8.0
        truth[p["name"]] = vals
        path = os.path.join(tmpdir, f"par_{i % 2}_{p['name'].replace(' ', '_')}.{ext}")
        sheet = f"sheet {p['name']}" if route == "xlsx-named-sheets" else None
        write_parameter_file(path, d, p, vals, rng, xlsx=xlsx, sheet=sheet, decoy_sheet=xlsx)
        par_files[p["name"]] = path if i % 5 else pathlib.Path(path)
        par_sheets[p["name"]] = sheet
    sig = "|".join(f"{l}:{s[0]}{'+h' if s[1] else ''}" for l, s in sorted(styles.items()))
    for l, n, it, dt in d.dims:
        rec.event(MD, sig=f"{route}|{styles[l]}|{dt.__name__}|{len(it)}", cls=f"dimension-file|{route}|{styles[l][0]}|{'header' if styles[l][1] else 'bare'}|{dt.__name__}")
    if i % 5 == 0:
        # an unrelated reader with its own pandas options, used earlier in the same process, must not influence later readers
        decoy = os.path.join(tmpdir, f"decoy.{ext}")
        try:
            if xlsx:
                pd.DataFrame({"head": ["u", "v"]}).to_excel(decoy, index=False)
                fd.ExcelDimensionReader(dimension_files={"decoy": decoy}, header=0).read_dimension(fd.DimensionDefinition(name="decoy", letter="z", dtype=str))
            else:
                with open(decoy, "w") as fh:
                    fh.write("head\nu;v\nw;x\n")
                fd.CSVDimensionReader(dimension_files={"decoy": decoy}, sep=";", header=0).read_dimension(fd.DimensionDefinition(name="decoy", letter="z", dtype=str))
        except Exception:
            pass
    try:
        if route == "user-written-reader":
            # a DataReader written by the user: dimensions and parameter values from memory; the Parameter objects it returns carry the
            # default name or a name of the user's own - the system files them under the names of the DEFINITION
            by_name = {n: (l, it, dt) for l, n, it, dt in d.dims}
            own = str(rng.choice(["default", "other", "same"]))

            class UserReader(fd.DataReader):
                def read_dimension(self, definition):
                    l_, it_, dt_ = by_name[definition.name]
                    return fd.Dimension(name=definition.name, letter=definition.letter, items=list(it_), dtype=definition.dtype)

                def read_parameter_values(self, parameter_name, dims):
                    kw_ = {} if own == "default" else {"name": "from my database" if own == "other" else parameter_name}
                    return fd.Parameter(dims=dims, values=np.array(truth[parameter_name], dtype=float), **kw_)

            rec.event(MB, sig=f"user-reader|{own}", cls=f"user-written-reader|parameter names: {own}")
            mfa = fd.MFASystem.from_data_reader(definition, UserReader())
        elif route == "csv":
            mfa = fd.MFASystem.from_csv(definition, dimension_files=dim_files, parameter_files=par_files)
        elif route == "xlsx-named-sheets":
            if (i // 3) % 2 == 0 and dim_sheets:
                # a sheet name that the workbook does not have: refused, never replaced by another sheet
                wrong = dict(dim_sheets)
                wrong[sorted(wrong)[0]] = "no such sheet"
                rec.event(MR, sig="missing-dimension-sheet", cls="refuse|named sheet missing in the workbook")
                try:
                    fd.MFASystem.from_excel(definition, dimension_files=dim_files, parameter_files=par_files, dimension_sheets=wrong, parameter_sheets=par_sheets)
                    rec.violation(MR, "accepted:dimension-sheet-that-does-not-exist", {"sheets": list(wrong.values())[:4]})
                except Exception:
                    pass
                if par_sheets:
                    wrongp = dict(par_sheets)
                    wrongp[sorted(wrongp)[0]] = "no such sheet"
                    try:
                        fd.MFASystem.from_excel(definition, dimension_files=dim_files, parameter_files=par_files, dimension_sheets=dim_sheets, parameter_sheets=wrongp)
                        rec.violation(MR, "accepted:parameter-sheet-that-does-not-exist", {"sheets": list(wrongp.values())[:4]})
                    except Exception:
                        pass
            mfa = fd.MFASystem.from_excel(definition, dimension_files=dim_files, parameter_files=par_files, dimension_sheets=dim_sheets, parameter_sheets=par_sheets)
        elif route == "xlsx-first-sheet":
            mfa = fd.MFASystem.from_excel(definition, dimension_files=dim_files, parameter_files=par_files)
        else:
            dreader = fd.CSVDimensionReader(dimension_files=dim_files)
            if i % 8 in (3, 7):
                # the SAME reader object is first asked for a dimension whose file must be refused (a grid instead of one row or
                # column / a label that is no number for an int dimension); the user catches that and goes on
                broken = os.path.join(tmpdir, f"broken_{i % 2}.csv")
                kind_b = int(rng.integers(0, 2))
                with open(broken, "w") as fh:
                    fh.write(["Year,other\n2000,1\n2001,2\n", "2000\ntwenty-o-one\n2002\n"][kind_b])
                dreader.dimension_files["Year"] = broken
                rec.event(MB, sig=f"reader-reuse-after-refusal|{kind_b}", cls="data_reader|same-reader-after-a-refused-dimension-file")
                try:
                    dreader.read_dimension(fd.DimensionDefinition(name="Year", letter="Y", dtype=int))
                    rec.violation(MR, "accepted:broken-dimension-file", {"kind": ["grid", "not-a-number"][kind_b]})
                except Exception:
                    pass
            reader = fd.CompoundDataReader(dimension_reader=dreader, parameter_reader=fd.CSVParameterReader(parameter_files=par_files))
            if i % 8 in (1, 5):
                # the SAME reader object first serves another definition that declares the same dimension NAMES (same files) under other
                # letters and as text; each system gets its dimensions as ITS definition declares them
                ls_ = [l for l, n, it, dt in d.dims]
                rot_ = dict(zip(ls_, ls_[1:] + ls_[:1]))
                other_def = fd.MFADefinition(dimensions=[fd.DimensionDefinition(name=n, letter=rot_[l], dtype=str) for l, n, it, dt in d.dims], processes=d.processes, flows=flows, stocks=[], parameters=[])
                rec.event(MB, sig=f"reader-serves-two-definitions|{len(ls_)}", cls="data_reader|same-reader-for-two-definitions-with-the-same-dimension-names")
                try:
                    first_sys = fd.MFASystem.from_data_reader(other_def, reader)
                except Exception:
                    first_sys = None
                if first_sys is not None:
                    got_ = {dm.name: (dm.letter, dm.dtype) for dm in first_sys.dims}
                    want_ = {n: (rot_[l], str) for l, n, it, dt in d.dims}
                    if got_ != want_:
                        rec.violation(MB, "system-built-by-a-reused-reader-has-other-dimensions-than-its-definition", {"got": repr(got_)[:300], "want": repr(want_)[:300]})
            mfa = fd.MFASystem.from_data_reader(definition, reader)
    except Exception as e:
        rec.event(MB, sig=f"{route}|raised", cls=f"{route}|raised")
        rec.violation(MB, f"building-from-files-raised:{route}", {"route": route, "exc": f"{type(e).__name__}: {str(e)[:300]}", "styles": sig, "dims": [(l, it[:4]) for l, n, it, dt in d.dims]})
        return
    # the default flow naming is the arrow form when assembling from files
    d2 = d
    old = d.naming
    d.naming = "arrow"
    try:
        compare_system(rec, fd, d2, mfa, route, param_truth=truth, sig=sig)
    finally:
        d.naming = old


def hostile_case(rec, hub, rng, tmpdir, i):
    """str-typed dimension with hostile labels, read through every dimension reader"""
    fd = hub.fd
    labels = list(HOSTILE[i % len(HOSTILE)])
    definition = fd.DimensionDefinition(name="region", letter="r", dtype=str)
    for route in ("csv", "xlsx"):
        for style in (("row", False), ("column", False), ("column", True), ("row", True)):
            path = os.path.join(tmpdir, f"h_{i}_{style[0]}_{int(style[1])}.{route}")
            write_dimension_file(path, "region", labels, style, xlsx=(route == "xlsx"))
            reader = fd.CSVDimensionReader(dimension_files={"region": path}) if route == "csv" else fd.ExcelDimensionReader(dimension_files={"region": path})
            rec.event(MD, sig=f"hostile|{route}|{style}|{i % len(HOSTILE)}", cls=f"dimension-file|hostile|{route}")
            known = label_is_altered_by_type_inference(labels, style[0])  # pandas parses Excel cell texts the same way
            try:
                dim = reader.read_dimension(definition)
                got = list(dim.items)
            except Exception as e:
                mech = f"dimension-file:hostile-labels-raise:{route}"
                if known:
                    mech = "dimension-file:label-altered-by-type-inference"
                rec.violation(MD, mech, {"labels": labels, "route": route, "style": style, "exc": f"{type(e).__name__}: {str(e)[:200]}"})
                continue
            if got != labels:
                mech = "dimension-file:label-altered-by-type-inference" if known else f"dimension-file:items-differ-from-file:{route}"
                rec.violation(MD, mech, {"labels": labels, "got": got, "route": route, "style": style})


def own_letter_case(rec, hub, rng, tmpdir, i):
    """items equal to the dimension's letter (or resembling its name) are items, not headers"""
    fd = hub.fd
    labels = list(OWN_LETTER[i % len(OWN_LETTER)])
    definition = fd.DimensionDefinition(name="region", letter="r", dtype=str)
    for route in ("csv", "xlsx"):
        for style in (("row", False), ("column", False), ("column", True), ("row", True)):
            path = os.path.join(tmpdir, f"o_{i}_{style[0]}_{int(style[1])}.{route}")
            write_dimension_file(path, "region", labels, style, xlsx=(route == "xlsx"))
            reader = fd.CSVDimensionReader(dimension_files={"region": path}) if route == "csv" else fd.ExcelDimensionReader(dimension_files={"region": path})
            rec.event(MD, sig=f"own-letter|{route}|{style}|{i % len(OWN_LETTER)}", cls=f"dimension-file|item-equals-letter|{route}")
            try:
                got = list(reader.read_dimension(definition).items)
            except Exception as e:
                rec.violation(MD, f"dimension-file:raised-for-items-resembling-letter-or-name:{route}", {"labels": labels, "style": style, "exc": f"{type(e).__name__}: {str(e)[:200]}"})
                continue
            if got != labels:
                rec.violation(MD, "dimension-file:item-equal-to-letter-or-resembling-name-was-dropped-or-altered", {"labels": labels, "got": got, "route": route, "style": style})


def refusals(rec, hub, rng, d):
    fd = hub.fd
    dims = SY.fd_dims(fd, d)

    def must_raise(what, f):
        rec.event(MR, sig=what, cls=f"refuse|{what}")
        try:
            r = f()
        except Exception:
            return
        rec.violation(MR, f"accepted:{what}", {"what": what, "result": repr(r)[:200]})

    others = [p for p in d.processes if p != "sysenv"]
    if others:
        must_raise("sysenv-not-first", lambda: fd.make_processes(others + ["sysenv"]))
        must_raise("no-sysenv-at-all", lambda: fd.make_processes(others))
    # a first process whose name only resembles the system environment's
    for alias in ("Sysenv", "SYSENV", "sysenv ", " sysenv", "sys_env", "sysEnv", "system environment", "environment"):
        must_raise(f"first-process-named-{alias!r}", lambda: fd.make_processes([alias] + others))
        if alias == str(rng.choice(["Sysenv", "SYSENV", "sysenv "])):
            dd_, ff_, ss_, pp_ = SY.fd_definitions(fd, d)
            must_raise(f"definition-route:first-process-named-{alias!r}", lambda: fd.MFASystem.from_data_reader(
                fd.MFADefinition(dimensions=dd_, processes=[alias] + others, flows=[], stocks=[], parameters=[]), _DimsOnlyReader(fd, d)))
    procs = fd.make_processes(d.processes)
    letters = [x[0] for x in d.dims]
    must_raise("flow-with-undefined-process", lambda: fd.make_empty_flows(processes=procs, flow_definitions=[fd.FlowDefinition(from_process_name="sysenv", to_process_name="no such process", dim_letters=tuple(letters[:1]))], dims=dims))
    must_raise("flow-with-undefined-dimension", lambda: fd.make_empty_flows(processes=procs, flow_definitions=[fd.FlowDefinition(from_process_name="sysenv", to_process_name="sysenv", dim_letters=("q",))], dims=dims))
    must_raise("stock-with-undefined-process", lambda: fd.make_empty_stocks(processes=procs, stock_definitions=[fd.StockDefinition(name="s", process_name="no such process", dim_letters=("t",), subclass=fd.SimpleFlowDrivenStock)], dims=dims))
    must_raise("dsm-without-lifetime-model", lambda: fd.StockDefinition(name="s", dim_letters=("t",), subclass=fd.InflowDrivenDSM))
    must_raise("simple-stock-with-lifetime-model", lambda: fd.StockDefinition(name="s", dim_letters=("t",), subclass=fd.SimpleFlowDrivenStock, lifetime_model_class=fd.NormalLifetime))
    must_raise("unknown-solver", lambda: fd.StockDefinition(name="s", dim_letters=("t",), subclass=fd.StockDrivenDSM, lifetime_model_class=fd.NormalLifetime, solver="fast"))
    if len(letters) > 1:
        nt = [l for l in letters if l != "t"]
        must_raise("stock-time-not-first", lambda: fd.make_empty_stocks(processes=procs, stock_definitions=[fd.StockDefinition(name="s", dim_letters=(nt[0], "t"), subclass=fd.SimpleFlowDrivenStock)], dims=dims))
        must_raise("stock-without-time", lambda: fd.make_empty_stocks(processes=procs, stock_definitions=[fd.StockDefinition(name="s", dim_letters=(nt[0],), subclass=fd.SimpleFlowDrivenStock)], dims=dims))
    dimdefs, flows, stocks, params = SY.fd_definitions(fd, d)
    must_raise("definition-with-undefined-dimension-in-flow", lambda: fd.MFADefinition(dimensions=dimdefs, processes=d.processes, flows=[fd.FlowDefinition(from_process_name="sysenv", to_process_name="sysenv", dim_letters=("q",))], stocks=[], parameters=[]))
    must_raise("definition-with-undefined-dimension-in-parameter", lambda: fd.MFADefinition(dimensions=dimdefs, processes=d.processes, flows=[], stocks=[], parameters=[fd.ParameterDefinition(name="p", dim_letters=("t", "q"))]))
    must_raise("definition-with-undefined-dimension-in-stock", lambda: fd.MFADefinition(dimensions=dimdefs, processes=d.processes, flows=[], stocks=[fd.StockDefinition(name="s", dim_letters=("t", "q"), subclass=fd.SimpleFlowDrivenStock)], parameters=[]))
    must_raise("multi-letter-dimension-name-in-flow", lambda: fd.FlowDefinition(from_process_name="a", to_process_name="b", dim_letters=("time",)))


def _DimsOnlyReader(fd, d):
    """a user-written data reader handing out the dimensions of d (no files)"""
    by_name = {n: (l, it, dt) for l, n, it, dt in d.dims}

    class R(fd.DataReader):
        def read_dimension(self, definition):
            l, it, dt = by_name[definition.name]
            return fd.Dimension(name=definition.name, letter=definition.letter, items=list(it), dtype=definition.dtype)

        def read_parameter_values(self, parameter_name, dims):
            return fd.Parameter(dims=dims, name=parameter_name)

    return R()


def one(rec, hub, seed, tier, i, tmpdir):
    fd = hub.fd
    rng = case_nprng(seed, "c18.system", 0, i)
    which = i % 3
    n_time = [None, None, None, None, 1, 2][int(rng.integers(0, 6))]  # also systems over one or two time steps (nothing is computed here)
    user_classes = bool(rng.random() < 0.3)
    d = SY.gen_def(rng, hostile_names=(tier == "thorough"), time_letter_variants=0.0 if which == 0 and i % 2 == 0 else 0.35, vary_items=True, big_system=0.03, n_time=n_time)
    if d.flows and rng.random() < 0.08 and all(f_["override"] != "" for f_ in d.flows):
        d.flows[int(rng.integers(0, len(d.flows)))]["override"] = ""  # an overriding name may be any text, the empty one included
    if user_classes:
        for s_ in d.stocks:
            s_["user_subclass"] = True  # stock definitions naming the user's own subclasses of the shipped stock classes
    # distinct flow names (the statement's domain): overrides for parallel edges are generated by gen_def
    if which == 0:
        try:
            mfa = SY.build_system(fd, d)
        except Exception as e:
            rec.event(MB, sig="helpers|raised", cls="helpers|raised")
            rec.violation(MB, "building-from-definitions-raised:helpers", {"exc": f"{type(e).__name__}: {str(e)[:300]}", "dims": [(l, it[:4]) for l, n, it, dt in d.dims], "stocks": [(s_["cls"], s_["lm"]) for s_ in d.stocks][:4]})
            return
        compare_system(rec, fd, d, mfa, "helpers")
        if any(l == "t" and n == "time" for l, n, it, dt in d.dims):
            refusals(rec, hub, rng, d)  # written for a time dimension lettered 't'
        else:
            refusals(rec, hub, rng, SY.gen_def(rng))
    elif which == 1:
        files_case(rec, hub, rng, tier, d, tmpdir, i)
    else:
        files_case(rec, hub, rng, tier, d, tmpdir, i)
        if tier == "thorough" or i % 9 == 2:
            hostile_case(rec, hub, rng, tmpdir, i // 3)
        if tier == "thorough" or i % 9 == 5:
            own_letter_case(rec, hub, rng, tmpdir, i // 3)


def run(rec, hub, tier, seed, shard, nshards, budget):
    rec.require(MB, 30)
    rec.require(MR, 20)
    rec.require(MD, 20)
    n = 450 if tier == "quick" else 4000
    tmpdir = tempfile.mkdtemp(prefix="vmon-c18-")
    try:
        for kk in range(n):
            if not budget.ok():
                break
            i = kk * nshards + shard
            rec.set_case(driver="c18.system", seed=seed, tier=tier, shard=shard, nshards=nshards, idx=i)
            one(rec, hub, seed, tier, i, tmpdir)
            if kk % 50 == 49:
                for f in os.listdir(tmpdir):
                    os.unlink(os.path.join(tmpdir, f))
    finally:
        shutil.rmtree(tmpdir, ignore_errors=True)


def replay(rec, hub, case):
    tmpdir = tempfile.mkdtemp(prefix="vmon-c18-")
    try:
        rec.set_case(**case)
        one(rec, hub, case["seed"], case.get("tier", "quick"), case["idx"], tmpdir)
    finally:
        shutil.rmtree(tmpdir, ignore_errors=True)
