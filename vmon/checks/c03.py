"""C03 — computed stocks conserve mass: stock change = net inflow x interval length."""

from __future__ import annotations

import numpy as np

from ..core import case_nprng
from ..drivers import dsm
from ..oracles import stock as S

PIGGY = True  # thorough tier also runs the repository tests / howtos / examples under these monitors
LEVEL = "exploration"
PROPS = ("C03",)
BUDGET = {"quick": 50, "thorough": 330}
SHARDS = {"quick": 1, "thorough": 16}
RULE = (
    "on every return of compute() of SimpleFlowDrivenStock / InflowDrivenDSM / StockDrivenDSM(manual, lapack) the wrapper checks "
    "stock[t]-stock[t-1] = dt[t]*(inflow[t]-outflow[t]) for every t and label (dt from the documented midpoint rule, computed independently), "
    "then calls the real check_stock_balance / get_stock_balance (must accept) and perturbs one entry of stock / inflow / outflow far above "
    "(must raise) and far below (must not raise) the threshold.  Workload: 3 classes x 2 solvers x 5 lifetime models x parameter shapes x "
    "grids (unit, constant 2/5/10, uneven incl. the howto's, half-integer) x 0-2 extra dims x drivers (positive, with zeros, mixed sign, "
    "arbitrary stocks).  Configuration signature = (class, solver, lifetime model, grid class, n_t, extra shape)"
)


def one(rec, hub, seed, tier, i):
    fd = hub.fd
    rng = case_nprng(seed, "c03.model", 0, i)
    which = i % 4
    with dsm.quiet():
        if which == 0:
            cfg = dsm.make_config(fd, rng, tier, wide_p=0.008)
            s = dsm.make_stock(fd, cfg, "SimpleFlowDrivenStock", inflow=dsm.driver_values(rng, cfg["shape"], "mixed"))
            s.outflow.values[...] = dsm.driver_values(rng, cfg["shape"], "mixed")
            s.compute()
        elif which == 1:
            cfg = dsm.make_config(fd, rng, tier, wide_p=0.008)
            drv_kind = str(rng.choice(["positive", "mixed"]))
            xin = dsm.driver_values(rng, cfg["shape"], drv_kind)
            if len(cfg["items"]) <= 30 and (rng.random() < 0.1 or cfg.get("very_long")):
                xin = np.abs(xin) * 10.0 ** float(rng.uniform(9.0, 11.3))  # throughputs around 1e13 (kilograms of a bulk material): the balance still closes to the tonne
            s = dsm.make_stock(fd, cfg, "InflowDrivenDSM", inflow=xin)
            s.compute()
        else:
            cfg, lm = dsm.make_solvable(fd, rng, tier)
            if cfg is None:
                rec.skip(S.M03, "no solvable configuration found")
                return
            s = dsm.make_stock(fd, cfg, "StockDrivenDSM", solver="manual" if which == 2 else "lapack", lm=lm,
                               stock=dsm.driver_values(rng, cfg["shape"], str(rng.choice(["stock", "growing", "scaled:growing"]))))
            s.compute()
        if hasattr(s, "lifetime_model") and rng.random() < 0.3:
            # the same stock and the same lifetime model once more with other driver values (cached tables are shared state)
            drv = s.stock if type(s).__name__ == "StockDrivenDSM" else s.inflow
            drv.values[...] = drv.values * rng.uniform(0.5, 2.0, size=drv.values.shape)
            s.compute()
            # and a second stock of the other kind that shares the lifetime-model instance
            other = dsm.make_stock(fd, cfg, "InflowDrivenDSM", lm=s.lifetime_model, inflow=np.abs(np.asarray(s.inflow.values, dtype=float)))
            other.compute()
        if hasattr(s, "lifetime_model") and rng.random() < 0.2:
            # a shallow copy of the stock's lifetime model (model_copy() / copy.copy) is given other parameters and used; the stock,
            # computed again with its own model, is what it was
            import copy as _copy

            lm_cp = s.lifetime_model.model_copy() if rng.random() < 0.5 else _copy.copy(s.lifetime_model)
            lm_cp.set_prms(**{pn: np.array(v) * (1.7 if pn in ("mean", "weibull_scale") else 1.0) for pn, v in cfg["truth"].items()})
            lm_cp.sf, lm_cp.pdf
            s.compute()
        if hasattr(s, "lifetime_model") and rng.random() < 0.25:
            # the same object once more with a driver that is zero everywhere (a scenario without the product): every result,
            # the cohort tables included, is that of an empty stock
            drv = s.stock if type(s).__name__ == "StockDrivenDSM" else s.inflow
            drv.values[...] = 0
            s.compute()
        if hasattr(s, "lifetime_model") and rng.random() < 0.25 and len(cfg["items"]) <= 60:
            dsm.refused_then_corrected(hub, s, cfg, rng)
        if hasattr(s, "lifetime_model") and rng.random() < 0.4:
            # same objects, other parameters: the identities must hold for the recomputed stock as well
            lm = s.lifetime_model
            kw = {}
            for pn, v in cfg["truth"].items():
                f = rng.uniform(1.05, 1.6)
                kw[pn] = np.array(v) * (f if pn in ("mean", "weibull_scale") else 1.0)
            lm.set_prms(**kw)
            if rng.random() < 0.5:
                lm.sf
            s.compute()


def far_tail_sweep(rec, hub, rng):
    """Lifetimes far beyond the horizon, swept so that the horizon ends 5 ... 9 standard deviations before the mean, with throughputs of
    1e11 ... 1e13: the outflow shares are the far tail of the distribution (1e-7 ... 1e-19) - tiny, but times such throughputs they are
    tonnes, and the balance of the computed stock closes all the same (judged by the monitors on compute())"""
    fd = hub.fd
    n = int(rng.integers(8, 14))
    tdim = fd.Dimension(letter="t", name="time", items=[2000 + j for j in range(n)])
    dims = fd.DimensionSet(dim_list=[tdim])
    mean = float(rng.uniform(100.0, 200.0))
    for z in np.arange(5.0, 9.01, 0.25):
        std = (mean - n) / float(z)
        for model in ("NormalLifetime", "FoldedNormalLifetime"):
            for mag in (1e11, 1e12, 1e13):
                cls_ = str(rng.choice(["InflowDrivenDSM", "StockDrivenDSM"]))
                lm = getattr(fd, model)(dims=dims, time_letter="t", mean=mean, std=std)
                if cls_ == "InflowDrivenDSM":
                    s = fd.InflowDrivenDSM(dims=dims, inflow=fd.StockArray(dims=dims, values=rng.uniform(0.5, 1.0, size=(n,)) * mag), lifetime_model=lm, time_letter="t")
                else:
                    s = fd.StockDrivenDSM(dims=dims, stock=fd.StockArray(dims=dims, values=np.cumsum(rng.uniform(0.5, 1.0, size=(n,))) * mag), lifetime_model=lm, time_letter="t", solver=str(rng.choice(["manual", "lapack"])))
                with dsm.quiet():
                    s.compute()


def throughflow_case(rec, hub, rng):
    """A flow-driven stock whose inflow and outflow are huge and nearly equal (a through-flow of ~1e16 with a small net addition), all
    whole numbers on a grid with whole interval lengths: every quantity of the balance is exactly representable, so the stock is the
    exact running total of the net additions and the library's own balance check accepts it."""
    fd = hub.fd
    n = int(rng.integers(3, 9))
    step = int(rng.choice([1, 1, 2, 5]))
    tdim = fd.Dimension(letter="t", name="time", items=[2000 + step * j for j in range(n)])
    rdim = fd.Dimension(letter="r", name="region", items=["EUR", "USA"], dtype=str)
    dims = fd.DimensionSet(dim_list=[tdim, rdim] if rng.random() < 0.5 else [tdim])
    base = (rng.integers(2**50, 2**52, size=dims.shape) * 4).astype(float)   # multiples of 4 around 1e16: exactly representable
    net = rng.integers(-20, 60, size=dims.shape).astype(float) * 4.0          # net additions that keep every sum exact
    inflow, outflow = base + net, base
    s = fd.SimpleFlowDrivenStock(dims=dims, inflow=fd.StockArray(dims=dims, values=inflow.copy()), outflow=fd.StockArray(dims=dims, values=outflow.copy()), time_letter="t")
    rec.event(S.M03B, sig=f"throughflow|n={n}|step={step}|nd={len(dims.shape)}", cls="self-check|SimpleFlowDrivenStock|large through-flow, exact data")
    try:
        with dsm.quiet():
            s.compute()
    except Exception as e:
        rec.violation(S.M03B, "compute-raised:large-through-flow", {"exc": repr(e)[:200]}, prop="C03")
        return
    exp = np.cumsum(net * step, axis=0)
    if not np.array_equal(np.asarray(s.stock.values, dtype=float), exp):
        rec.violation(S.M03, "stock-is-not-the-running-total-of-the-net-additions:exactly-representable-data", {"worst": float(np.max(np.abs(s.stock.values - exp))), "through_flow": float(base.max()), "step": step}, prop="C03")
    try:
        with dsm.quiet():
            s.check_stock_balance()
    except Exception as e:
        rec.violation(S.M03B, "check_stock_balance-rejects-a-computed-stock:large-through-flow", {"exc": repr(e)[:200], "through_flow": float(base.max())}, prop="C03")


def run(rec, hub, tier, seed, shard, nshards, budget):
    from ..oracles import bystand

    bystand.register(hub, "C03")
    S.register_compute(hub, PROPS)
    rec.require(S.M03B, 10)
    n = 1500 if tier == "quick" else 6000
    for k in range(n):
        if not budget.ok():
            break
        i = k * nshards + shard
        rec.set_case(driver="c03.model", seed=seed, tier=tier, shard=shard, nshards=nshards, idx=i)
        try:
            one(rec, hub, seed, tier, i)
        except Exception as e:
            rec.violation(S.M03, "compute-raised-on-a-valid-configuration", {"exc": repr(e)[:300]})
        if k == 5:
            rec.set_case(driver="c03.fartail", seed=seed, tier=tier, shard=shard, nshards=nshards, idx=i)
            far_tail_sweep(rec, hub, case_nprng(seed, "c03.fartail", 0, i))
        if k % 25 == 3:
            rec.set_case(driver="c03.throughflow", seed=seed, tier=tier, shard=shard, nshards=nshards, idx=i)
            throughflow_case(rec, hub, case_nprng(seed, "c03.throughflow", 0, i))


def replay(rec, hub, case):
    from ..oracles import bystand

    bystand.register(hub, "C03")
    S.register_compute(hub, PROPS)
    rec.set_case(**case)
    if case["driver"] == "c03.fartail":
        far_tail_sweep(rec, hub, case_nprng(case["seed"], "c03.fartail", 0, case["idx"]))
        return
    if case["driver"] == "c03.throughflow":
        throughflow_case(rec, hub, case_nprng(case["seed"], "c03.throughflow", 0, case["idx"]))
        return
    one(rec, hub, case["seed"], case.get("tier", "quick"), case["idx"])
