"""C16 — dynamic stock models are causal, linear and independent across labels."""

from __future__ import annotations

from ..core import case_nprng
from ..drivers import dsm

LEVEL = "exploration"
BUDGET = {"quick": 55, "thorough": 400}
SHARDS = {"quick": 1, "thorough": 16}
RULE = (
    "relational monitor on variant shadow runs of the real code per configuration: (causal) driver values after step k replaced -> results "
    "up to k unchanged, for EVERY k (n_t <= 12) ; (linear) f(ax+by) = a f(x) + b f(y) and f(2.5x) = 2.5 f(x) on stock, inflow, outflow and both "
    "cohort tables; (labels) every label combination recomputed alone with its own parameter slices equals its slice of the joint run; "
    "(shift) all time items + s -> identical; (impulse) unit inflow rate in EVERY cohort c -> stock = sf[:,c]*dt[c].  Inflow-driven at "
    "1e-12*n_t relative, stock-driven with the kappa-scaled tolerance of C10.  Drivers for different labels are drawn independently.  "
    "Configuration signature = (variant, class/solver, model, grid class, n_t, extra shape)"
)


def run(rec, hub, tier, seed, shard, nshards, budget):
    from ..oracles import bystand

    bystand.register(hub, "C16")
    rec.require(dsm.M16, 50)
    n = 210 if tier == "quick" else 1500
    for k in range(n):
        if not budget.ok():
            break
        i = k * nshards + shard
        rec.set_case(driver="c16.case", seed=seed, tier=tier, shard=shard, nshards=nshards, idx=i)
        dsm.c16_case(rec, hub, case_nprng(seed, "c16.case", 0, i), tier, i)
        if k % 11 == 6:
            rec.set_case(driver="c16.lmorder", seed=seed, tier=tier, shard=shard, nshards=nshards, idx=i)
            dsm.lm_time_not_first_case(rec, hub, case_nprng(seed, "c16.lmorder", 0, i), tier)
        if k % 9 == 4:
            rec.set_case(driver="c16.degenerate", seed=seed, tier=tier, shard=shard, nshards=nshards, idx=i)
            dsm.one_label_degenerate_case(rec, hub, case_nprng(seed, "c16.degenerate", 0, i), tier)
        if k % 5 == 2:
            rec.set_case(driver="c16.two", seed=seed, tier=tier, shard=shard, nshards=nshards, idx=i)
            dsm.two_objects_case(rec, hub, case_nprng(seed, "c16.two", 0, i), tier, dsm.M16, "C16")


def replay(rec, hub, case):
    from ..oracles import bystand

    bystand.register(hub, "C16")
    rec.set_case(**case)
    if case["driver"] == "c16.lmorder":
        dsm.lm_time_not_first_case(rec, hub, case_nprng(case["seed"], "c16.lmorder", 0, case["idx"]), case.get("tier", "quick"))
        return
    if case["driver"] == "c16.degenerate":
        dsm.one_label_degenerate_case(rec, hub, case_nprng(case["seed"], "c16.degenerate", 0, case["idx"]), case.get("tier", "quick"))
        return
    if case["driver"] == "c16.two":
        dsm.two_objects_case(rec, hub, case_nprng(case["seed"], "c16.two", 0, case["idx"]), case.get("tier", "quick"), dsm.M16, "C16")
        return
    dsm.c16_case(rec, hub, case_nprng(case["seed"], "c16.case", 0, case["idx"]), case.get("tier", "quick"), case["idx"])
