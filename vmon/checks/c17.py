"""C17 — recomputing a stock reflects its current inputs only."""

from __future__ import annotations

from ..core import case_nprng
from ..drivers import dsm

LEVEL = "exploration"
BUDGET = {"quick": 50, "thorough": 330}
SHARDS = {"quick": 1, "thorough": 16}
RULE = (
    "history monitor: one live stock object receives random sequences of {write driver values, set_prms (arrays or FlodymArrays), compute, "
    "read sf/pdf, compute}; after every compute() a fresh twin (new lifetime model + new stock built from the driver values and parameter "
    "arrays the live object holds at that moment) is computed with monitoring paused and stock, inflow, outflow, both cohort tables and the "
    "survival/outflow-probability tables must agree to 1e-12; compute() twice in a row must change nothing.  Second sentence of the property: an MFASystem subclass whose compute() sets drivers, re-parameterises the lifetime models of stocks built by make_empty_stocks and computes them is run over 5 scenarios (changing driver, mean, spread; sometimes an all-zero driver) and after each scenario every stock is compared with a freshly built system; the shipped example system is looped likewise.  All stock classes/solvers x "
    "lifetime models x grids; histories of length 4-12.  Configuration signature = (class/solver, model, grid class, n_t, last four operations)"
)


def run(rec, hub, tier, seed, shard, nshards, budget):
    from ..oracles import bystand

    bystand.register(hub, "C17")
    rec.require(dsm.M17, 50)
    rec.require(dsm.M17S, 20)
    n = 500 if tier == "quick" else 4000
    for k in range(n):
        if not budget.ok():
            break
        i = k * nshards + shard
        rec.set_case(driver="c17.case", seed=seed, tier=tier, shard=shard, nshards=nshards, idx=i)
        dsm.c17_case(rec, hub, case_nprng(seed, "c17.case", 0, i), tier, i)
        if k % 6 == 1:
            rec.set_case(driver="c17.shared", seed=seed, tier=tier, shard=shard, nshards=nshards, idx=i)
            dsm.c17_shared_model_case(rec, hub, case_nprng(seed, "c17.shared", 0, i), tier)
        if k % 10 == 8:
            rec.set_case(driver="c17.prmdtype", seed=seed, tier=tier, shard=shard, nshards=nshards, idx=i)
            dsm.c17_first_prms_dtype_case(rec, hub, case_nprng(seed, "c17.prmdtype", 0, i), tier)
        if k % 10 == 5:
            rec.set_case(driver="c17.singular", seed=seed, tier=tier, shard=shard, nshards=nshards, idx=i)
            dsm.c17_singular_case(rec, hub, case_nprng(seed, "c17.singular", 0, i), tier)
        if k % 7 == 3:
            rec.set_case(driver="c17.usermodel", seed=seed, tier=tier, shard=shard, nshards=nshards, idx=i)
            dsm.c17_user_model_case(rec, hub, case_nprng(seed, "c17.usermodel", 0, i), tier)
        if k % 5 == 2:
            rec.set_case(driver="c17.two", seed=seed, tier=tier, shard=shard, nshards=nshards, idx=i)
            dsm.two_objects_case(rec, hub, case_nprng(seed, "c17.two", 0, i), tier, dsm.M17, "C17")
        if k % 6 == 1:
            rec.set_case(driver="c17.siblings", seed=seed, tier=tier, shard=shard, nshards=nshards, idx=i)
            dsm.sibling_grids_case(rec, hub, case_nprng(seed, "c17.siblings", 0, i), tier, "C17")
        if k % 4 == 0:
            rec.set_case(driver="c17.system", seed=seed, tier=tier, shard=shard, nshards=nshards, idx=i)
            dsm.c17_system_case(rec, hub, case_nprng(seed, "c17.system", 0, i), tier, i)
    rec.set_case(driver="c17.example", seed=seed, tier=tier, shard=shard, nshards=nshards, idx=shard)
    dsm.c17_example_case(rec, hub, case_nprng(seed, "c17.example", 0, shard))


def replay(rec, hub, case):
    from ..oracles import bystand

    bystand.register(hub, "C17")
    rec.set_case(**case)
    if case["driver"] == "c17.prmdtype":
        dsm.c17_first_prms_dtype_case(rec, hub, case_nprng(case["seed"], "c17.prmdtype", 0, case["idx"]), case.get("tier", "quick"))
        return
    if case["driver"] == "c17.singular":
        dsm.c17_singular_case(rec, hub, case_nprng(case["seed"], "c17.singular", 0, case["idx"]), case.get("tier", "quick"))
        return
    if case["driver"] == "c17.usermodel":
        dsm.c17_user_model_case(rec, hub, case_nprng(case["seed"], "c17.usermodel", 0, case["idx"]), case.get("tier", "quick"))
        return
    if case["driver"] == "c17.siblings":
        dsm.sibling_grids_case(rec, hub, case_nprng(case["seed"], "c17.siblings", 0, case["idx"]), case.get("tier", "quick"), "C17")
        return
    if case["driver"] == "c17.two":
        dsm.two_objects_case(rec, hub, case_nprng(case["seed"], "c17.two", 0, case["idx"]), case.get("tier", "quick"), dsm.M17, "C17")
        return
    if case["driver"] == "c17.system":
        dsm.c17_system_case(rec, hub, case_nprng(case["seed"], "c17.system", 0, case["idx"]), case.get("tier", "quick"), case["idx"])
        return
    if case["driver"] == "c17.shared":
        dsm.c17_shared_model_case(rec, hub, case_nprng(case["seed"], "c17.shared", 0, case["idx"]), case.get("tier", "quick"))
        return
    if case["driver"] == "c17.example":
        dsm.c17_example_case(rec, hub, case_nprng(case["seed"], "c17.example", 0, case["idx"]))
        return
    dsm.c17_case(rec, hub, case_nprng(case["seed"], "c17.case", 0, case["idx"]), case.get("tier", "quick"), case["idx"])
