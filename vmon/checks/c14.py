"""C14 — dimension sets behave as ordered sets of uniquely lettered dimensions."""

from __future__ import annotations

import itertools

from ..core import case_rng
from ..model import DSnap, LDimSet, Snap
from ..oracles import dimset as O

PIGGY = True  # thorough tier also runs the repository tests / howtos / examples under these monitors
LEVEL = "exploration"
BUDGET = {"quick": 45, "thorough": 150}
SHARDS = {"quick": 1, "thorough": 16}
RULE = (
    "every public DimensionSet/Dimension call is judged in the wrapper against the ordered-list model LDimSet "
    "(result order, receiver unchanged or = model for inplace, clash => exception + receiver unchanged, "
    "independence probe on every out-of-place result); workload = all ordered pairs of the ordered subsets of a "
    "4-letter universe x 8 binary operators (exhaustive) + random histories of in-place/out-of-place operations on a "
    "pool of sets with arrays built from them (every third history over a 10-letter alphabet with up to 9 dimensions per set and names differing only by case or a suffix); a configuration is (operation, receiver letters, argument letters, inplace); "
    "distinct_nontrivial counts distinct such signatures with a non-empty receiver or argument"
)

ALPHA = [("a", "alpha", (1, 2)), ("b", "beta", ("x", "y", "z")), ("c", "gamma", (10, 20)), ("d", "delta", ("p", "q")), ("e", "epsil", (7, 8, 9))]
# wider alphabet for every third history: more dimensions per set (up to 9), names that are
# look-alikes of other names (case, suffix), a size-1 and a longer dimension
ALPHA_WIDE = ALPHA + [("f", "ab", ("only",)), ("g", "alpha 2", tuple(range(1990, 2003))), ("h", "Alpha", ("u", "v")), ("T", "time", (0, 1)), ("t", "Time", (2000, 2001, 2002))]


def mkdims(fd):
    out = {}
    for l, n, it in ALPHA:
        own = list(it)
        out[l] = fd.Dimension(letter=l, name=n, items=own)
        own.append("added to the user's list afterwards")  # the list the user built the dimension from stays the user's
        own.reverse()
    return out


def ordered_subsets(letters):
    out = []
    for k in range(len(letters) + 1):
        out.extend(itertools.permutations(letters, k))
    return out


def run(rec, hub, tier, seed, shard, nshards, budget):
    fd = hub.fd
    O.register(hub)
    D = mkdims(fd)

    # -- 1. histories (first: they must not be starved by the enumeration when the machine is loaded) ----------------------------------------------------------
    n_hist, length = (250, 14) if tier == "quick" else (1200, 40)
    import time as _time

    t_hist_end = _time.monotonic() + 0.6 * BUDGET[tier]
    for h in range(n_hist):
        if not budget.ok() or _time.monotonic() > t_hist_end:
            break
        run_history(rec, hub, D, seed, shard, nshards, tier, h, length)
    # -- 1b. sets of many long dimensions (no array is ever built from them): sizes up to ~2**62 ----------------------------------
    for g in range(12 if tier == "quick" else 40):
        if not budget.ok():
            break
        run_huge_set(rec, hub, seed, shard, nshards, tier, g)
    for g in range(20 if tier == "quick" else 60):
        rec.set_case(driver="c14.special", seed=seed, tier=tier, shard=shard, nshards=nshards, idx=g * nshards + shard)
        run_special(rec, hub, D, seed, g * nshards + shard)
    # -- 2. exhaustive pairs ---------------------------------------------------
    universe = "abcde" if tier == "thorough" else "abcd"
    subs = ordered_subsets(universe)
    pairs = list(itertools.product(subs, subs))
    rec.exhaustive_spaces[f"ordered pairs of ordered subsets of {universe} x 8 binary operators"] = True
    ops = ["__or__", "__and__", "__sub__", "__xor__", "__add__", "union_with", "intersect_with", "difference_with"]
    done = 0
    for i, (la, lb) in enumerate(pairs):
        if i % nshards != shard:
            continue
        if not budget.ok():
            rec.exhaustive_spaces[f"ordered pairs of ordered subsets of {universe} x 8 binary operators"] = False
            break
        rec.set_case(driver="c14.pairs", seed=seed, shard=shard, nshards=nshards, tier=tier, idx=i, a=la, b=lb)
        run_pair(rec, hub, D, la, lb, ops)
        done += 1
    rec.info("pairs_enumerated", done)

    rec.info("histories", n_hist)


def run_pair(rec, hub, D, la, lb, ops):
    fd = hub.fd
    for op in ops:
        A = fd.DimensionSet(dim_list=[D[l] for l in la])
        B = fd.DimensionSet(dim_list=[D[l] for l in lb])
        try:
            getattr(A, op)(B)
        except Exception:
            pass
        if len(lb) == 1:  # Dimension as right operand
            try:
                getattr(A, op)(D[lb[0]])
            except Exception:
                pass
    # right operand holding, under a letter both sets have, ANOTHER dimension (fewer items, another name): what the operators keep
    # from the left operand stays the left operand's dimension
    shared = [l for l in la if l in lb]
    if shared:
        tw = fd.Dimension(letter=shared[0], name=f"reduced {shared[0]}", items=list(D[shared[0]].items)[:1])
        Bt = fd.DimensionSet(dim_list=[tw if l == shared[0] else D[l] for l in lb])
        for op in ops:
            A = fd.DimensionSet(dim_list=[D[l] for l in la])
            try:
                getattr(A, op)(Bt)
            except Exception:
                pass
    # right operand holding a dimension with another letter but the NAME of one of the left operand's dimensions
    if la:
        ntw = fd.Dimension(letter="n", name=D[la[0]].name, items=["n1", "n2"])
        Bn = fd.DimensionSet(dim_list=[D[l] for l in lb if l != la[0]] + [ntw])
        for op in ops:
            A = fd.DimensionSet(dim_list=[D[l] for l in la])
            try:
                getattr(A, op)(Bn)
            except Exception:
                pass
    if len(la) == 1:
        for other in ([D[lb[0]]] if len(lb) == 1 else []) + [fd.DimensionSet(dim_list=[D[l] for l in lb])]:
            try:
                D[la[0]] + other
            except Exception:
                pass


def run_huge_set(rec, hub, seed, shard, nshards, tier, g):
    """a product catalogue x regions x cohorts x years ...: thousands of items per dimension, total sizes far beyond 2**53"""
    fd = hub.fd
    rng = case_rng(seed, "c14.huge", shard, g)
    rec.set_case(driver="c14.huge", seed=seed, shard=shard, nshards=nshards, tier=tier, idx=g)
    k = rng.randint(3, 7)
    target_bits = rng.uniform(30, 61.5)
    per = 2 ** (target_bits / k)
    sizes = [max(2, int(per * rng.uniform(0.6, 1.6)) | 1) for _ in range(k)]
    tot = 1
    for z in sizes:
        tot *= z
    while tot >= 2**62:
        sizes[sizes.index(max(sizes))] //= 2
        tot = 1
        for z in sizes:
            tot *= z
    letters = rng.sample("abcdefghij", k)
    dl = [fd.Dimension(letter=l, name=f"long {l}", items=list(range(1000, 1000 + z)) if i % 2 else [f"{l}{q}" for q in range(z)]) for i, (l, z) in enumerate(zip(letters, sizes))]
    ds = fd.DimensionSet(dim_list=dl)
    m = LDimSet([O.dkey(d) for d in dl])
    O.check_lookups(rec, fd, ds, m)
    sub = rng.sample(letters, rng.randint(1, k))
    O.check_lookups(rec, fd, ds.get_subset(tuple(sub)), m.subset(sub))
    O.check_lookups(rec, fd, ds.drop(sub[0]), LDimSet([d for d in m.dims if d[0] != sub[0]]))


def run_special(rec, hub, D, seed, g):
    """(a) a dimension replaced by one of the SAME NAME under a new letter (a re-lettered dimension), addressed by letter or by name, in
    place or not; (b) sets obtained from DimensionSet.empty() (and the dimension sets of scalar arrays) are sets of their own: growing
    one in place leaves every other one, earlier or later, empty"""
    fd = hub.fd
    rng = case_rng(seed, "c14.special", 0, g)
    M = "dimset-special"
    letters = [l for l in "abcd" if l in D]
    k = rng.randint(1, len(letters))
    order = rng.sample(letters, k)
    for by in ("letter", "name"):
        for inplace in (False, True):
            ds = fd.DimensionSet(dim_list=[D[l] for l in order])
            l = rng.choice(order)
            nd = fd.Dimension(letter=l.upper(), name=D[l].name, items=list(D[l].items)[::-1] + ["one more"])
            want = [(x.upper() if x == l else x) for x in order]
            rec.event(M, sig=f"replace-same-name|{by}|{inplace}|{k}", cls=f"replace by a dimension of the same name under a new letter|by {by}|{'in place' if inplace else 'new set'}")
            try:
                r = ds.replace(l if by == "letter" else D[l].name, nd, inplace=inplace)
                got_set = ds if inplace else r
                w = {"by": by, "inplace": inplace, "before": order, "got": list(got_set.letters), "expected": want}
                if list(got_set.letters) != want or list(got_set[l.upper()].items) != list(nd.items):
                    rec.violation(M, "replace-by-a-same-named-dimension-under-a-new-letter:wrong-set", w)
                if not inplace and list(ds.letters) != order:
                    rec.violation(M, "replace-by-a-same-named-dimension-under-a-new-letter:source-set-changed", w)
            except Exception as e:
                rec.violation(M, "replace-by-a-same-named-dimension-under-a-new-letter:raised", {"by": by, "inplace": inplace, "before": order, "exc": repr(e)[:200]})
    # (b)
    e1, e2 = fd.DimensionSet.empty(), fd.DimensionSet.empty()
    sc = fd.FlodymArray.scalar(1.5) if hasattr(fd.FlodymArray, "scalar") else None
    how = rng.choice(["append", "prepend", "insert", "expand_by"])
    rec.event(M, sig=f"empty-sets|{how}", cls=f"sets from DimensionSet.empty() are independent|grown by {how}")
    try:
        d0 = D[rng.choice(letters)]
        if how == "append":
            e1.append(d0, inplace=True)
        elif how == "prepend":
            e1.prepend(d0, inplace=True)
        elif how == "insert":
            e1.insert(0, d0, inplace=True)
        else:
            e1.expand_by([d0], inplace=True)
        e3 = fd.DimensionSet.empty()
        sc2 = fd.FlodymArray.scalar(2.5) if sc is not None else None
        others = {"another empty() made before": e2, "an empty() made afterwards": e3}
        if sc is not None:
            others.update({"the set of a scalar array made before": sc.dims, "the set of a scalar array made afterwards": sc2.dims})
        for what, o in others.items():
            if len(o.dim_list) != 0 or tuple(o.letters) != ():
                rec.violation(M, "empty-set-grown-in-place-changed-another-empty-set", {"how": how, "which": what, "letters_now": list(o.letters)})
        if list(e1.letters) != [d0.letter]:
            rec.violation(M, "empty-set-grown-in-place:wrong-set", {"how": how, "letters_now": list(e1.letters)})
    except Exception as e:
        rec.violation(M, "empty-set-grown-in-place:raised", {"how": how, "exc": repr(e)[:200]})


def replay(rec, hub, case):
    fd = hub.fd
    O.register(hub)
    D = mkdims(fd)
    rec.set_case(**case)
    if case["driver"] == "c14.special":
        run_special(rec, hub, D, case["seed"], case["idx"])
    elif case["driver"] == "c14.huge":
        run_huge_set(rec, hub, case["seed"], case["shard"], case["nshards"], case["tier"], case["idx"])
    elif case["driver"] == "c14.pairs":
        run_pair(rec, hub, D, tuple(case["a"]), tuple(case["b"]), ["__or__", "__and__", "__sub__", "__xor__", "__add__", "union_with", "intersect_with", "difference_with"])
    else:
        run_history(rec, hub, D, case["seed"], case["shard"], case["nshards"], case["tier"], case["idx"], case["length"])


def run_history(rec, hub, D, seed, shard, nshards, tier, h, length):
    """A pool of live sets, each with its model and arrays built from it; random public operations."""
    fd = hub.fd
    rng = case_rng(seed, "c14.history", shard, h)
    rec.set_case(driver="c14.history", seed=seed, shard=shard, nshards=nshards, tier=tier, idx=h, length=length)
    wide = h % 3 == 2
    if wide:
        D = {l: fd.Dimension(letter=l, name=n, items=list(it)) for l, n, it in ALPHA_WIDE}
    letters = list(D.keys())
    # clashing twins: same letter, other name/items
    twins = {l: fd.Dimension(letter=l, name=f"twin {l}", items=["t1", "t2", "t3"]) for l in letters}

    def fresh_set():
        k = rng.randint(0, 7 if wide else 4)
        ls = rng.sample(letters, k)
        own_list = [D[l] for l in ls]
        ds_ = fd.DimensionSet(dim_list=own_list)
        m_ = LDimSet([O.dkey(D[l]) for l in ls])
        r_ = rng.random()
        if r_ < 0.15:
            own_list.append(twins[letters[0]])  # the user's own list goes on being edited: the set is a set of its own
            own_list.reverse()
        elif r_ < 0.25:
            import pickle

            ds_ = pickle.loads(pickle.dumps(ds_))
        elif r_ < 0.35:
            import copy

            ds_ = copy.deepcopy(ds_)
        elif r_ < 0.42:
            ds_ = ds_.model_copy(deep=True)
        return ds_, m_

    pool = [fresh_set() for _ in range(3)]
    arrays = []  # (array, Snap at creation, index of set it was built from)
    steps = []

    def check_all():
        for ds, m in pool:
            O.check_lookups(rec, fd, ds, m, absent=[(l, D[l].name) for l in letters if l not in m.letters])
        for arr, snap in arrays:
            if not Snap(arr).same(snap):
                rec.violation("dimset-arrays-untouched", "array-built-from-a-set-changed-when-the-set-was-edited",
                              {"steps": steps[-6:], "array_before": list(snap.letters), "array_after": list(Snap(arr).letters)})
        rec.event("dimset-arrays-untouched", sig=f"{len(arrays)}|{len(steps)}", cls="pool-scan", n=1)

    for step in range(length):
        i = rng.randrange(len(pool))
        ds, m = pool[i]
        kind = rng.choice(["append", "prepend", "insert", "drop", "replace", "expand", "subset", "copy", "binop", "array", "getitem_tuple", "clash", "init_dup", "subset_none", "edit_items"])
        inplace = rng.random() < 0.5
        absent = [l for l in letters if l not in m.letters]
        present = list(m.letters)
        desc = None
        try:
            if kind in ("append", "prepend", "insert") and absent:
                l = rng.choice(absent)
                nd = D[l]
                if kind == "append":
                    r = ds.append(nd, inplace=inplace) if rng.random() < 0.6 else ds.append(nd, inplace)  # the switch also by position
                    newdims = m.dims + [O.dkey(nd)]
                elif kind == "prepend":
                    r = ds.prepend(nd, inplace=inplace)
                    newdims = [O.dkey(nd)] + m.dims
                else:
                    pos = rng.randint(0, len(m.dims)) if rng.random() < 0.6 else rng.randint(-len(m.dims) - 1, -1)  # also counted from the end, as in list.insert
                    r = ds.insert(pos, nd, inplace=inplace)
                    newdims = list(m.dims)
                    newdims.insert(pos, O.dkey(nd))
                desc = (kind, l, inplace)
                if inplace:
                    pool[i] = (ds, LDimSet(newdims))
                else:
                    pool.append((r, LDimSet(newdims)))
            elif kind == "drop" and present:
                l = rng.choice(present)
                key = l if rng.random() < 0.5 else m.get(l)[1]
                r = (ds.drop if rng.random() < 0.5 else ds.remove)(key, inplace=inplace) if rng.random() < 0.6 else (ds.drop if rng.random() < 0.5 else ds.remove)(key, inplace)
                newdims = [d for d in m.dims if d[0] != l]
                desc = ("drop", key, inplace)
                if inplace:
                    pool[i] = (ds, LDimSet(newdims))
                else:
                    pool.append((r, LDimSet(newdims)))
            elif kind == "replace" and present and absent:
                l = rng.choice(present)
                n = rng.choice(absent)
                key = l if rng.random() < 0.5 else m.get(l)[1]
                r = ds.replace(key, D[n], inplace=inplace)
                newdims = [O.dkey(D[n]) if d[0] == l else d for d in m.dims]
                desc = ("replace", key, n, inplace)
                if inplace:
                    pool[i] = (ds, LDimSet(newdims))
                else:
                    pool.append((r, LDimSet(newdims)))
            elif kind == "expand" and absent:
                ls = rng.sample(absent, rng.randint(1, len(absent)))
                r = (ds.expand_by if rng.random() < 0.5 else ds.extend)([D[l] for l in ls], inplace=inplace) if rng.random() < 0.6 else (ds.expand_by if rng.random() < 0.5 else ds.extend)([D[l] for l in ls], inplace) if rng.random() < 0.7 else ((ds.expand_by if rng.random() < 0.5 else ds.extend)([D[l] for l in ls]) if not inplace else (ds.expand_by if rng.random() < 0.5 else ds.extend)([D[l] for l in ls], inplace=True))
                newdims = m.dims + [O.dkey(D[l]) for l in ls]
                desc = ("expand", ls, inplace)
                if inplace:
                    pool[i] = (ds, LDimSet(newdims))
                else:
                    pool.append((r, LDimSet(newdims)))
            elif kind == "subset" and present:
                ls = rng.sample(present, rng.randint(0, len(present)))
                keys = [l if rng.random() < 0.5 else m.get(l)[1] for l in ls]
                r = ds.get_subset(tuple(keys))
                pool.append((r, m.subset(keys)))
                desc = ("subset", keys)
            elif kind == "subset_none":
                r = ds.get_subset()
                pool.append((r, m.copy()))
                desc = ("subset_none",)
            elif kind == "getitem_tuple" and present:
                ls = rng.sample(present, rng.randint(1, len(present)))
                r = ds[tuple(ls)]
                pool.append((r, m.subset(ls)))
                desc = ("getitem", ls)
            elif kind == "copy":
                r = ds.copy()
                pool.append((r, m.copy()))
                desc = ("copy",)
            elif kind == "binop":
                j = rng.randrange(len(pool))
                ds2, m2 = pool[j]
                op = rng.choice(["__or__", "__and__", "__sub__", "__xor__", "__add__"])
                desc = ("binop", op, list(m.letters), list(m2.letters))
                r = getattr(ds, op)(ds2)
                mm = {"__or__": m.union, "__and__": m.inter, "__sub__": m.diff, "__xor__": m.xor, "__add__": m.union}[op](m2)
                pool.append((r, mm))
            elif kind == "array" and len(arrays) < 6:
                arr = fd.FlodymArray(dims=ds)
                arrays.append((arr, Snap(arr)))
                desc = ("array", list(m.letters))
            elif kind == "clash" and present:
                l = rng.choice(present)
                which = rng.choice(["append", "prepend", "insert", "expand", "replace_other"])
                nd = rng.choice([D[l], twins[l]])
                desc = ("clash", which, l, inplace)
                if which == "append":
                    ds.append(nd, inplace=inplace)
                elif which == "prepend":
                    ds.prepend(nd, inplace=inplace)
                elif which == "insert":
                    ds.insert(rng.randint(0, len(present)), nd, inplace=inplace)
                elif which == "expand":
                    extra = [D[a] for a in absent[:1]]
                    ds.expand_by(extra + [nd], inplace=inplace)
                elif which == "replace_other" and len(present) > 1:
                    other = rng.choice([p for p in present if p != l])
                    ds.replace(other, nd, inplace=inplace)
            elif kind == "edit_items":
                # the user's own dimension (in no array) gains an item after a set holding it was looked at: size, shape, total size
                # and the item list of that set go on agreeing with each other
                dp = fd.Dimension(letter="z", name="zeta of the user", items=[1, 2, 3])
                sp = fd.DimensionSet(dim_list=[D[x] for x in present[:2]] + [dp])
                _ = (sp.shape, sp.total_size, sp.size("z"))
                dp.items.append(4)
                if rng.random() < 0.5:
                    dp.items.extend([5, 6])
                desc = ("edit_items", len(dp.items))
                rec.event("dimset-lookups", sig=f"edit-items|{len(dp.items)}", cls="lookups|after the items of a held dimension were edited")
                n_ = len(sp["z"].items)
                tot_ = 1
                for l_ in sp.letters:
                    tot_ *= len(sp[l_].items)
                if not (sp.size("z") == n_ == sp.shape[-1] == sp["z"].len) or sp.total_size != tot_:
                    rec.violation("dimset-lookups", "lookups:size-shape-and-items-disagree-after-items-were-edited", {"items": n_, "size": sp.size("z"), "shape": list(sp.shape), "total_size": sp.total_size, "expected_total": tot_})
            elif kind == "init_dup" and present:
                l = rng.choice(present)
                desc = ("init_dup", l)
                members = [D[x] for x in present] + [twins[l]]
                form = rng.randrange(4)
                if form == 0:
                    fd.DimensionSet(dim_list=members)
                else:
                    rec.event("dimset-model", sig=f"init-dup|form={form}", cls=f"init|dup|{['list', 'generator', 'dictionaries', 'dictionaries with the alias spelling'][form]}")
                    try:
                        if form == 1:
                            made = fd.DimensionSet(dim_list=(q for q in members))  # a generator
                        elif form == 2:
                            made = fd.DimensionSet(dim_list=[q.model_dump() for q in members])  # plain dictionaries, as after model_dump / from a json file
                        else:
                            made = fd.DimensionSet.model_validate({"dim_list": [{("dim_letter" if k_ == "letter" else k_): v_ for k_, v_ in q.model_dump().items()} for q in members]})
                    except Exception:
                        made = None
                    if made is not None:
                        rec.violation("dimset-model", "constructor-accepted-duplicate-letters", {"form": ["list", "generator", "dictionaries", "dictionaries with the alias spelling"][form], "letters": list(made.letters)})
        except Exception as e:
            desc = (desc, "raised", type(e).__name__)
        steps.append(desc)
        if len(pool) > 8:
            pool.pop(rng.randrange(len(pool)))
        check_all()
