"""C11 — DataFrame import is faithful to labels under every supported layout."""

from __future__ import annotations

import numpy as np
import pandas as pd

from ..core import case_nprng
from ..drivers import frames as F
from ..model import Snap

LEVEL = "exploration"
BUDGET = {"quick": 55, "thorough": 420}
SHARDS = {"quick": 1, "thorough": 16}
RULE = (
    "(a) every to_df call is judged in the wrapper by an independent reader of the produced frame (layout known from the arguments): every "
    "label tuple exactly once with its value, sparse = exactly the non-zero entries, wide = one column per item; (b) frames are built by the "
    "driver from a ground-truth label->value map with unique dyadic cell values (each cell identifies its row) in every supported layout "
    "and from_df must return exactly the source array: long / wide over each dimension x dimensions in columns / in the index / split x "
    "header style (names, letters, mixed, anonymous = items only) x row and column permutations x single-item dimensions omitted x renamed "
    "value column x CSV text round trip, dims of 1-4 with int / str / untyped items, plus one 40 000-item dimension.  Configuration "
    "signature = (ndim, item types, layout, wide dim, header style, index placement, value name, csv, omitted singles)"
)
MT = "to_df-rows"
MF = "from_df-faithful"
MR = "to_df-from_df-roundtrip"


def register_to_df(hub):
    fd = hub.fd
    rec = hub.rec
    rec.require(MT, 20)

    def oracle(hub, call):
        xs = call.pre[0]
        if not isinstance(xs, Snap) or not xs.ok or xs.values.size > 20000:
            return
        index = call.arg(1, "index", True)
        d2c = call.arg(2, "dim_to_columns", None)
        sparse = bool(call.arg(3, "sparse", False))
        k = len(xs.letters)
        sig = f"to_df|{k}|{xs.shape}|{bool(index)}|{d2c is not None}|{sparse}"
        if d2c is not None and not (d2c in xs.letters or d2c in xs.names):
            rec.event(MT, sig=sig + "|unknown", cls="to_df|unknown-dim")
            if call.exc is None:
                rec.violation(MT, "to_df:accepted-unknown-dimension", {"dim_to_columns": repr(d2c)})
            return
        rec.event(MT, sig=sig, cls=f"to_df|{'wide' if d2c is not None else 'long'}|{'index' if index else 'columns'}|{'sparse' if sparse else 'dense'}|nd={k}",
                  sample={"dims": list(xs.letters), "shape": list(xs.shape), "index": bool(index), "dim_to_columns": d2c, "sparse": sparse})
        if call.exc is not None:
            mech = "to_df:raised"
            if d2c is not None and k == 1:
                mech = "to_df:wide-layout-of-a-1-dimensional-array-raises"
            rec.violation(MT, mech, {"exc": repr(call.exc)[:300], "dims": list(xs.letters), "dim_to_columns": d2c, "index": bool(index), "sparse": sparse})
            return
        df = call.result
        truth = {}
        for idx in np.ndindex(*xs.shape):
            truth[tuple(xs.items[j][i] for j, i in enumerate(idx))] = float(xs.values[idx])
        if sparse:
            truth = {kk: v for kk, v in truth.items() if v != 0}
        got = {}
        try:
            d = df.reset_index() if index else df
            if d2c is None:
                for _, row in d.iterrows():
                    key = tuple(row[n] for n in xs.names)
                    if key in got:
                        rec.violation(MT, "to_df:label-combination-listed-twice", {"label": [str(x) for x in key]})
                        return
                    got[key] = float(row["value"])
            else:
                wl = d2c if d2c in xs.letters else xs.letters[xs.names.index(d2c)]
                wi = xs.letters.index(wl)
                others = [n for j, n in enumerate(xs.names) if j != wi]
                for _, row in d.iterrows():
                    for it in xs.items[wi]:
                        if it not in d.columns:
                            continue
                        v = row[it]
                        if sparse and (v != v):
                            continue
                        lab = [row[n] for n in others]
                        lab.insert(wi, it)
                        key = tuple(lab)
                        if key in got:
                            rec.violation(MT, "to_df:label-combination-listed-twice", {"label": [str(x) for x in key]})
                            return
                        got[key] = float(v)
        except Exception as e:
            rec.violation(MT, "to_df:frame-not-readable-in-the-announced-layout", {"exc": repr(e)[:300], "columns": [str(c) for c in df.columns], "index_names": [str(n) for n in df.index.names]})
            return
        if sparse and d2c is not None:
            got = {kk: v for kk, v in got.items() if v != 0 and v == v}
        if set(got.keys()) != set(truth.keys()):
            miss = [list(map(str, kk)) for kk in list(set(truth) - set(got))[:3]]
            extra = [list(map(str, kk)) for kk in list(set(got) - set(truth))[:3]]
            rec.violation(MT, "to_df:listed-labels-differ-from-the-array's-entries", {"missing": miss, "extra": extra, "sparse": sparse, "wide": d2c is not None})
            return
        for kk, v in truth.items():
            if got[kk] != v and not (v != v and got[kk] != got[kk]):
                rec.violation(MT, "to_df:value-under-wrong-label", {"label": list(map(str, kk)), "got": got[kk], "expected": v})
                return

    hub.on("FlodymArray.to_df", oracle)


def truncation_case(rec, hub, rng, i):
    """named columns, but the VALUES truncate (int()) exactly onto the items of an int-typed dimension"""
    fd = hub.fd
    years = [2000 + j for j in range(int(rng.integers(1, 4)))]
    tdim = fd.Dimension(letter="t", name="time", items=list(years), dtype=int)
    rdim = fd.Dimension(letter="r", name="region", items=["EUR", "USA"], dtype=str)
    dims = fd.DimensionSet(dim_list=[tdim, rdim] if rng.random() < 0.5 else [rdim, tdim])
    shape = dims.shape
    # every year occurs as the integer part of some value
    flat = np.array([years[j % len(years)] + float(rng.integers(1, 8)) / 8 for j in range(int(np.prod(shape)))])
    values = rng.permutation(flat).reshape(shape)
    rows = []
    for idx in np.ndindex(*shape):
        rows.append({d.name: d.items[k] for d, k in zip(dims, idx)} | {"value": float(values[idx])})
    df = pd.DataFrame(rows)
    rec.event(MF, sig=f"values-truncate-to-items|{len(years)}", cls="from_df|values-truncate-onto-an-int-dimension's-items")
    try:
        y = fd.FlodymArray.from_df(dims=dims, df=df)
    except Exception as e:
        rec.violation(MF, "from_df:value-column-mistaken-for-an-int-dimension-after-truncation", {"exc": repr(e)[:300], "years": years, "values_head": values.ravel()[:4].tolist()})
        return
    if not np.array_equal(y.values, values):
        rec.violation(MF, "from_df:entry-under-wrong-label:values-truncate-to-items", {"years": years})


def finding_mech(info, exc):
    if info.get("item_inferred_column_after_value_column") and isinstance(exc, ValueError):
        return "from_df:item-inferred-dimension-column-after-a-value-column"
    return None


def one(rec, hub, seed, tier, i):
    fd = hub.fd
    rng = case_nprng(seed, "c11.frame", 0, i)
    csv = rng.random() < 0.3
    layout = "wide" if rng.random() < 0.4 else "long"
    spec, dims = F.make_dims(fd, rng, allow_untyped_int=not csv)
    k = len(spec)
    values = F.make_values(rng, dims.shape)
    x = fd.FlodymArray(dims=dims, values=values.copy())
    recs = F.long_records(spec, values)
    wide_dim = None
    if layout == "wide":
        cands = [j for j in range(k) if len(spec[j][2]) > 1 and not (spec[j][3] is None and not isinstance(spec[j][2][0], str))]
        if not cands:
            layout = "long"
        else:
            wide_dim = cands[int(rng.integers(0, len(cands)))]
    header = F.HEADER_STYLES[i % 4]
    in_index = str(rng.choice(["none", "none", "all", "some"]))
    vname = str(rng.choice(["value", "value", "amount", "v", "Wert"]))
    omit = rng.random() < 0.4
    if vname in [s[0] for s in spec]:
        vname = "value"
    df, info = F.render(spec, recs, rng, layout=layout, wide_dim=wide_dim, header=header, in_index=in_index, vname=vname, omit_single=omit, unnamed_year_index=bool(i % 6 == 4), foreign_named_index=bool(i % 6 == 2))
    if not csv and rng.random() < 0.3 and isinstance(df.index, pd.RangeIndex):
        # the same table in other column types, as other tools hand them over: categorical / nullable-integer / string-typed /
        # float-typed label columns, nullable-float / single-precision / object-typed value columns (all values stay exactly the same)
        df = df.copy()
        for c_ in list(df.columns):
            sp_ = info["dimcol_of"].get(c_)
            try:
                if sp_ is not None:
                    kind_ = int(rng.integers(0, 4))
                    if kind_ == 0:
                        df[c_] = df[c_].astype("category")
                    elif kind_ == 1 and sp_[3] is int:
                        df[c_] = df[c_].astype("Int64")
                    elif kind_ == 2 and sp_[3] is str:
                        df[c_] = df[c_].astype("string")
                    elif kind_ == 3 and sp_[3] is int:
                        df[c_] = df[c_].astype(float)
                elif layout == "long" and c_ == vname:
                    df[c_] = df[c_].astype(["Float64", "float32", object, float][int(rng.integers(0, 4))])
            except Exception:
                pass
        info["column_types"] = [str(t_) for t_ in df.dtypes]
    if csv:
        has_index = not isinstance(df.index, pd.RangeIndex) or df.index.names != [None]
        named = df.index.names != [None] or bool(info.get("unnamed_year_index"))  # an index that holds a dimension is written out
        df = F.csv_roundtrip(df, index=bool(named))
    if layout == "long" and header in ("names", "letters") and not csv and in_index == "none" and i % 11 == 0:
        # last sentence of the property: an entry comes from the UNIQUE row carrying its labels.  A second row for an entry whose
        # int label is spelled as text (the same label after conversion), standing in for another row, must not be merged silently.
        cols_i = [c for c in df.columns if c in info["dimcol_of"] and info["dimcol_of"][c][3] is int]
        if cols_i and len(df) > 2:
            c0 = cols_i[0]
            d2 = df.reset_index(drop=True).copy()
            d2[c0] = d2[c0].astype(object)
            dup = d2.iloc[[0]].copy()
            dup.iloc[0, list(d2.columns).index(c0)] = str(dup.iloc[0, list(d2.columns).index(c0)])
            dup[vname] = dup[vname] + 0.5
            d2 = pd.concat([d2.drop(index=1), dup], ignore_index=True)
            rec.event(MF, sig=f"respelled-duplicate|nd={k}|{header}", cls="from_df|respelled-duplicate-row")
            for am in (False, True):
                try:
                    fd.FlodymArray.from_df(dims=dims, df=d2, allow_missing_values=am)
                except Exception:
                    continue
                rec.violation(MF, "from_df:merged-two-rows-of-one-entry-spelled-differently", {"allow_missing_values": am, "column": str(c0), "head": d2.tail(3).astype(str).to_dict("split")["data"]})
    if layout == "long" and header in ("names", "letters") and not csv and i % 13 == 0:
        singles = [c for c in df.reset_index().columns if c in info["dimcol_of"] and len(info["dimcol_of"][c][2]) == 1]
        if singles:
            d3 = df.reset_index() if df.index.names != [None] else df.copy()
            d3[singles[0]] = 4242 if info["dimcol_of"][singles[0]][3] is int else "some other label"
            rec.event(MF, sig=f"single-item-relabelled|nd={k}|{header}", cls="from_df|single-item-dimension-with-another-label")
            try:
                fd.FlodymArray.from_df(dims=dims, df=d3)
                rec.violation(MF, "from_df:accepted-rows-labelled-with-an-unknown-item-of-a-single-item-dimension", {"column": str(singles[0]), "head": d3.head(3).astype(str).to_dict("split")["data"]})
            except Exception:
                pass
    if layout == "long" and header in ("names", "letters") and not csv and i % 7 in (0, 3) and not info.get("unnamed_year_index") and not info.get("foreign_named_index"):
        # (a) a refused import (a row missing / a row whose label only LOOKS like an item) must leave the dimensions - and with them every
        #     later export and import over them - untouched; (b) if such a frame is imported at all, no entry may come from the stranger row
        d4 = (df.reset_index() if df.index.names != [None] else df.copy()).reset_index(drop=True)
        cands4 = [c for c in d4.columns if c in info["dimcol_of"] and len(info["dimcol_of"][c][2]) > 1]
        if cands4 and len(d4) > 1:
            c4 = cands4[int(rng.integers(0, len(cands4)))]
            r4 = int(rng.integers(0, len(d4)))
            true_lab = d4.loc[r4, c4]
            lab = F.unknown_label(rng, info["dimcol_of"][c4][2], info["dimcol_of"][c4][3] is int)
            d4[c4] = d4[c4].astype(object)
            d5 = d4.copy()
            d5.loc[r4, c4] = lab
            d6 = d4.drop(index=r4).reset_index(drop=True)
            # position of the entry that lost its row
            lab_of = {info["dimcol_of"][c][0]: d4.loc[r4, c] for c in d4.columns if c in info["dimcol_of"]}
            pos = tuple(list(s_[2]).index(lab_of[s_[0]]) if s_[0] in lab_of else 0 for s_ in spec)
            for frame, what in ((d6, "row-missing"), (d5, "look-alike-label")):
                for am, ae in ((False, False), (True, True), (False, True), (True, False)):
                    rec.event(MF, sig=f"{what}|am={am}|ae={ae}|nd={k}|{header}", cls=f"from_df|{what}|then-valid-imports")
                    try:
                        y4 = fd.FlodymArray.from_df(dims=dims, df=frame.copy(), allow_missing_values=am, allow_extra_values=ae)
                    except Exception:
                        y4 = None
                    if [list(d_.items) for d_ in dims] != [list(s_[2]) for s_ in spec]:
                        rec.violation(MF, "from_df:dimension-items-changed-by-an-import", {"what": what, "allow_missing_values": am, "allow_extra_values": ae, "returned": y4 is not None,
                                                                                          "items_now": [list(map(str, d_.items))[:6] for d_ in dims], "items_before": [list(map(str, s_[2]))[:6] for s_ in spec]})
                        return
                    if y4 is not None and isinstance(y4.values, np.ndarray) and y4.values.shape == values.shape:
                        exp4 = values.copy()
                        exp4[pos] = 0.0
                        if not np.array_equal(y4.values, exp4):
                            stranger = bool(y4.values[pos] != 0.0)
                            rec.violation(MF, "from_df:entry-set-from-a-row-that-does-not-carry-its-labels" if stranger else "from_df:entry-under-wrong-label:after-a-row-was-lost",
                                          {"what": what, "label_in_frame": repr(lab), "true_label": repr(true_lab), "column": str(c4), "allow_missing_values": am, "allow_extra_values": ae})
    types = "".join("i" if s[3] is int else "s" if s[3] is str else "u" for s in spec)
    sig = f"nd={k}|{types}|{layout}|{info['wide_dim']}|{header}|{in_index}|{vname == 'value'}|csv={csv}|omit={omit}|lens={[len(s[2]) for s in spec]}"
    rec.event(MF, sig=sig, cls=f"from_df|{layout}|{header}|idx={in_index}|csv={csv}",
              sample={"dims": [(s[0], s[2][:3]) for s in spec], "layout": layout, "header": header, "columns": info["columns"], "csv": bool(csv)})
    try:
        y = fd.FlodymArray.from_df(dims=dims, df=df)
    except Exception as e:
        mech = finding_mech(info, e) or f"from_df:raised-on-a-supported-layout:{layout}:{header}"
        rec.violation(MF, mech, {"exc": repr(e)[:400], "info": {k_: v for k_, v in info.items() if k_ != "dimcol_of"}, "csv": bool(csv), "head": df.head(4).to_dict("split")})
        return
    if not (isinstance(y.values, np.ndarray) and y.values.shape == values.shape and np.array_equal(y.values, values)):
        bad = np.argwhere(y.values != values)[:1].tolist() if isinstance(y.values, np.ndarray) and y.values.shape == values.shape else None
        rec.violation(MF, f"from_df:entry-under-wrong-label:{layout}:{header}", {"info": {k_: v for k_, v in info.items() if k_ != "dimcol_of"}, "first_bad_index": bad, "csv": bool(csv)})
    if i % 5 == 1:
        # importing into an existing array that holds integers / single precision: the imported values arrive unchanged
        tgt = fd.FlodymArray.full(dims, 0) if i % 2 else fd.FlodymArray(dims=dims, values=np.zeros(dims.shape, dtype=np.float32))
        rec.event(MF, sig=f"into-existing|{tgt.values.dtype}|nd={k}", cls=f"set_values_from_df|target dtype {tgt.values.dtype}")
        try:
            tgt.set_values_from_df(df)
            if not np.array_equal(np.asarray(tgt.values, dtype=float), values):
                rec.violation(MF, "set_values_from_df:values-altered-by-the-target's-previous-dtype", {"target_dtype_before": "int" if i % 2 else "float32", "dtype_after": str(tgt.values.dtype)})
        except Exception as e:
            if not finding_mech(info, e):
                rec.violation(MF, "set_values_from_df:raised-on-a-supported-layout", {"exc": repr(e)[:300]})
    # to_df -> from_df in every layout of to_df (judged by the to_df oracle and here)
    if i % 3 == 0:
        # mixed signs and exact zeros for the export layouts (sparse must list exactly the non-zero entries)
        v2 = values.copy()
        if v2.size > 1:
            flat = v2.reshape(-1)
            sel = rng.random(flat.size)
            flat[sel < 0.3] = 0.0
            flat[(sel >= 0.3) & (sel < 0.6)] *= -1.0
            tiny = (sel >= 0.6) & (sel < 0.7)
            flat[tiny] = np.array([1e-9, -3e-12, 5e-300, 2.5e-7])[rng.integers(0, 4, size=int(tiny.sum()))]  # small, but not zero
        from ..gen import relayout

        x = fd.FlodymArray(dims=dims, values=relayout(v2.copy(), rng))  # C, Fortran or strided memory layout
        values = v2
        if k >= 1 and i % 6 == 0:
            xr = fd.FlodymArray(dims=dims, values=values.copy())
            try:
                xr.to_df()
                d0 = dims[0]
                its_ = list(d0.items)
                if len(its_) > 1:
                    xr.dims.replace(d0.letter, fd.Dimension(letter=d0.letter.upper(), name=d0.name, items=its_[::-1], **({"dtype": d0.dtype} if d0.dtype is not None else {})), inplace=True)
                    xr.to_df()  # judged by the to_df oracle against the labels the array carries NOW
                    xr.to_df(index=False)
            except Exception:
                pass
        for kw in (dict(), dict(index=False), dict(sparse=True), dict(index=False, sparse=True)) + tuple(dict(dim_to_columns=(s[0] if rng.random() < 0.5 else s[1]), index=bool(rng.integers(0, 2)), **({"sparse": True} if rng.random() < 0.4 else {})) for s in spec if len(s[2]) > 1 and (s[3] is not None or isinstance(s[2][0], str))):
            rec.event(MR, sig=f"rt|{k}|{sorted(kw.items())}|{types}", cls=f"roundtrip|{'wide' if 'dim_to_columns' in kw else 'long'}")
            try:
                d2 = x.to_df(**kw) if rng.random() < 0.7 else x.to_df(kw.get("index", True), kw.get("dim_to_columns"), kw.get("sparse", False))  # also by position
            except Exception:
                continue  # judged by the to_df oracle
            try:
                z = fd.FlodymArray.from_df(dims=dims, df=d2, allow_missing_values=bool(kw.get("sparse")))
            except Exception as e:
                mech = "roundtrip:from_df-rejects-to_df-output" + (":1-dimensional-wide" if k == 1 and "dim_to_columns" in kw else "")
                if kw.get("sparse") and "dim_to_columns" in kw:
                    # structural predicate of finding F25: an item of the spread dimension has no non-zero entry, so its column is absent
                    cd = [j for j, s_ in enumerate(spec) if kw["dim_to_columns"] in (s_[0], s_[1])][0]
                    other_axes = tuple(a for a in range(values.ndim) if a != cd)
                    if np.any(np.all(values == 0, axis=other_axes)) and isinstance(e, ValueError):
                        mech = "roundtrip:sparse-wide-export-lacks-the-column-of-an-all-zero-item"
                rec.violation(MR, mech, {"layout": kw, "exc": repr(e)[:300], "dims": [(s[0], len(s[2])) for s in spec]})
                continue
            if not np.array_equal(z.values, values):
                rec.violation(MR, "roundtrip:array-differs-after-to_df-from_df", {"layout": kw, "dims": [(s[0], len(s[2])) for s in spec]})


def large_case(rec, hub, seed):
    """one dimension with 40 000 items: positions must not be truncated"""
    fd = hub.fd
    rng = case_nprng(seed, "c11.large", 0, 0)
    n = 40000
    big = fd.Dimension(letter="p", name="product", items=[100000 + i for i in range(n)], dtype=int)
    small = fd.Dimension(letter="r", name="region", items=["EUR", "USA"], dtype=str)
    dims = fd.DimensionSet(dim_list=[big, small])
    values = (np.arange(2 * n, dtype=float) * 0.25 + 4096.0).reshape(n, 2)
    df = pd.DataFrame({"product": np.repeat(big.items, 2), "region": ["EUR", "USA"] * n, "value": values.ravel()})
    df = df.iloc[rng.permutation(len(df))]
    rec.event(MF, sig="large|40000x2", cls="from_df|large-dimension", sample={"dims": [("p", n), ("r", 2)]})
    try:
        y = fd.FlodymArray.from_df(dims=dims, df=df)
    except Exception as e:
        rec.violation(MF, "from_df:raised-on-a-large-dimension", {"exc": repr(e)[:300]})
        return
    if not np.array_equal(y.values, values):
        bad = np.argwhere(y.values != values)
        rec.violation(MF, "from_df:entries-misplaced-for-a-dimension-with-more-than-32767-items", {"n_items": n, "n_wrong_entries": int(len(bad)), "first_wrong_position": bad[0].tolist()})


def large_presentations_case(rec, hub, seed, tmpdir=None):
    """a complete table of 12 000 rows (150 x 80 x 1 labels) that is NOT in array order, presented the ways large tables come: permuted
    rows with a fresh running row index, labels held in a (Multi)Index, the wide layout, a CSV round trip"""
    import io

    fd = hub.fd
    rng = case_nprng(seed, "c11.large-presentations", 0, 0)
    d1 = fd.Dimension(letter="p", name="product", items=[f"p{int(q):04d}" for q in rng.permutation(150)], dtype=str)
    d2 = fd.Dimension(letter="t", name="time", items=[1900 + int(q) for q in rng.permutation(80)], dtype=int)
    d3 = fd.Dimension(letter="s", name="scenario", items=["only"], dtype=str)
    dims = fd.DimensionSet(dim_list=[d1, d2, d3])
    values = (rng.permutation(150 * 80).astype(float) * 0.25 + 4096.0).reshape(150, 80, 1)
    long = pd.DataFrame({"product": np.repeat(d1.items, 80), "time": np.tile(d2.items, 150), "scenario": "only", "value": values.ravel()})
    perm = long.iloc[rng.permutation(len(long))]
    wide = long.pivot(index=["product", "scenario"], columns="time", values="value")
    frames = {
        "permuted rows, fresh running index": perm.reset_index(drop=True),
        "permuted rows, labels in the index": perm.set_index(["product", "time", "scenario"]),
        "sorted by another column, fresh running index": long.sort_values(["time", "product"]).reset_index(drop=True),
        "wide (time in columns), labels in the index": wide,
        "wide (time in columns), fresh running index": wide.reset_index(),
        "csv round trip of permuted rows": pd.read_csv(io.StringIO(perm.to_csv(index=False))),
    }
    for how, df in frames.items():
        rec.event(MF, sig=f"large-presentations|{how}", cls=f"from_df|12000 rows|{how}")
        try:
            y = fd.FlodymArray.from_df(dims=dims, df=df.copy())
        except Exception as e:
            rec.violation(MF, "from_df:raised-on-a-large-complete-table", {"presentation": how, "exc": repr(e)[:300]})
            continue
        if not np.array_equal(np.asarray(y.values, dtype=float), values):
            rec.violation(MF, "from_df:entries-misplaced-in-a-large-complete-table", {"presentation": how, "n_wrong_entries": int((np.asarray(y.values) != values).sum())})


def run(rec, hub, tier, seed, shard, nshards, budget):
    register_to_df(hub)
    rec.require(MF, 50)
    rec.require(MR, 10)
    if shard == 0:
        rec.set_case(driver="c11.large", seed=seed, tier=tier, shard=shard, nshards=nshards, idx=0)
        large_case(rec, hub, seed)
        rec.set_case(driver="c11.large-presentations", seed=seed, tier=tier, shard=shard, nshards=nshards, idx=0)
        large_presentations_case(rec, hub, seed)
    n = 1500 if tier == "quick" else 6000
    for kk in range(n):
        if not budget.ok():
            break
        i = kk * nshards + shard
        rec.set_case(driver="c11.frame", seed=seed, tier=tier, shard=shard, nshards=nshards, idx=i)
        one(rec, hub, seed, tier, i)
        if kk % 100 == 7:
            rec.set_case(driver="c11.truncation", seed=seed, tier=tier, shard=shard, nshards=nshards, idx=i)
            truncation_case(rec, hub, case_nprng(seed, "c11.truncation", 0, i), i)


def replay(rec, hub, case):
    register_to_df(hub)
    rec.set_case(**case)
    if case["driver"] == "c11.truncation":
        truncation_case(rec, hub, case_nprng(case["seed"], "c11.truncation", 0, case["idx"]), case["idx"])
    elif case["driver"] == "c11.large-presentations":
        large_presentations_case(rec, hub, case["seed"])
    elif case["driver"] == "c11.large":
        large_case(rec, hub, case["seed"])
    else:
        one(rec, hub, case["seed"], case.get("tier", "quick"), case["idx"])
