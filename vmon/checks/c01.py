"""C01 — arithmetic between arrays matches dimensions by label, never by axis position."""

from __future__ import annotations

import itertools

import numpy as np

from .. import gen
from ..core import case_nprng
from ..oracles import arith

PIGGY = True  # thorough tier also runs the repository tests / howtos / examples under these monitors
LEVEL = "exploration"
BUDGET = {"quick": 50, "thorough": 330}
SHARDS = {"quick": 1, "thorough": 16}
RULE = (
    "every call of + - * / ** minimum maximum (also reflected and unary forms) is judged inside the API wrapper against the "
    "label-keyed exact reference LArr: tagged values (powers of two / primes: the result's binary expansion or prime "
    "factorisation names exactly the entries combined) and dyadic values compared with ==, random reals with a derived "
    "backward-error tolerance, one planted NaN must reach exactly the dependent entries.  Workload: ALL ordered pairs of "
    "ordered dimension subsets of a 3-letter (quick) / 4-letter (thorough) universe x 7 binary operators x length patterns x "
    "regimes, numbers of four types on either side, 0-d operands, single-item dimensions, integer dtypes.  A configuration "
    "is (operator, x letters and lengths, y letters and lengths or number type, dtypes); it is non-trivial and distinct by that signature"
)

BINOPS = [("add", lambda x, y: x + y), ("sub", lambda x, y: x - y), ("mul", lambda x, y: x * y), ("div", lambda x, y: x / y),
          ("pow", lambda x, y: x**y), ("min", lambda x, y: x.minimum(y)), ("max", lambda x, y: x.maximum(y))]
REGIMES = ["tagged", "dyadic", "real", "taint", "wide"]


def do_pair(rec, hub, U, la, lb, regimes, rng):
    fd = hub.fd
    sx, sy = gen.shape_of(U, la), gen.shape_of(U, lb)
    for kind, f in BINOPS:
        for reg in regimes:
            vx, vy = gen.values_pair(reg, kind, rng, sx, sy)
            x = fd.FlodymArray(dims=gen.dimset(fd, U, la), values=gen.relayout(vx, rng))
            y = fd.FlodymArray(dims=gen.dimset(fd, U, lb), values=gen.relayout(vy, rng))
            try:
                f(x, y)
            except Exception:
                pass  # judged inside the wrapper


def do_scalars(rec, hub, U, la, rng):
    fd = hub.fd
    sx = gen.shape_of(U, la)
    nums = [2, 0.5, np.float64(-1.25), np.int32(3), 0, -4.0, np.int64(5), np.float32(0.5), np.float16(2.0), np.uint8(3)]
    for reg in ("dyadic", "real"):
        vx = gen.values_one(reg, rng, sx)
        x = gen.Fresh(hub, fd.FlodymArray(dims=gen.dimset(fd, U, la), values=gen.relayout(vx, rng)))
        xnz = gen.Fresh(hub, fd.FlodymArray(dims=gen.dimset(fd, U, la), values=gen.nonzero(vx, rng)))
        xpos = gen.Fresh(hub, fd.FlodymArray(dims=gen.dimset(fd, U, la), values=np.abs(gen.nonzero(vx, rng))))
        for k in nums:
            for f in (lambda: x + k, lambda: k + x, lambda: x - k, lambda: k - x, lambda: x * k, lambda: k * x,
                      lambda: x.minimum(k), lambda: x.maximum(k)):
                try:
                    f()
                except Exception:
                    pass
            # the same judged at the driver: the wrappers only see calls that reach the library - a number type that handles the
            # operation itself (numpy scalars standing on the left) would never get there
            for opn, f, ref in (("k+x", lambda: k + x.new(), lambda v: k + v), ("k-x", lambda: k - x.new(), lambda v: k - v), ("k*x", lambda: k * x.new(), lambda v: k * v), ("x-k", lambda: x.new() - k, lambda v: v - k)):
                rec.event("scalar-results", sig=f"{opn}|{type(k).__name__}|{la}", cls=f"scalar|{opn}|{type(k).__name__}")
                try:
                    r = f()
                except Exception as e:
                    rec.violation("scalar-results", f"scalar-operation-raised:{type(k).__name__}", {"op": opn, "number": repr(k), "exc": repr(e)[:200]})
                    continue
                if not isinstance(r, fd.FlodymArray) or tuple(r.dims.letters) != tuple(la) or tuple(np.shape(r.values)) != tuple(sx):
                    rec.violation("scalar-results", f"scalar-operation-did-not-return-an-array-over-the-operand's-dimensions:{type(k).__name__}:{'left' if opn[0] == 'k' else 'right'}",
                                  {"op": opn, "number": repr(k), "got_type": type(r).__name__, "got_dims": list(getattr(getattr(r, "dims", None), "letters", [])) if hasattr(r, "dims") else None})
                elif not np.array_equal(np.asarray(r.values, dtype=float), np.asarray(ref(np.asarray(vx, dtype=float)), dtype=float), equal_nan=True):
                    rec.violation("scalar-results", f"scalar-operation-wrong-entries:{type(k).__name__}", {"op": opn, "number": repr(k)})
            if k != 0:
                for f in (lambda: x / k, lambda: k / xnz, lambda: xpos ** (k if abs(k) < 4 else 2)):
                    try:
                        f()
                    except Exception:
                        pass
        for f in (lambda: -x, lambda: abs(x), lambda: x.abs(), lambda: x.sign()):
            try:
                f()
            except Exception:
                pass
        try:
            x.abs(inplace=True)
            x.sign(inplace=True)
        except Exception:
            pass
    # integer dtype operands
    xi = gen.Fresh(hub, fd.FlodymArray(dims=gen.dimset(fd, U, la), values=rng.integers(-9, 10, size=sx)))
    yi = fd.FlodymArray(dims=gen.dimset(fd, U, la), values=rng.integers(1, 10, size=sx))
    for f in (lambda: xi + yi, lambda: xi - yi, lambda: xi * yi, lambda: xi / yi, lambda: xi.minimum(yi), lambda: 3 - xi, lambda: -xi, lambda: abs(xi),
              lambda: xi + 0.5, lambda: xi * 1.5, lambda: 0.25 - xi, lambda: xi / 2.5, lambda: xi.maximum(0.5), lambda: 2.5 * xi, lambda: xi - 0.75):
        try:
            f()
        except Exception:
            pass
    # whole numbers judged exactly at the driver (Python integers): (a) 64-bit integers whose products and sums lie beyond 2**53,
    # where a detour through floating point loses units; (b) narrow dtypes (int8 ... int32, bool) whose sums leave the dtype's range
    lb_ = tuple(la[::-1]) if rng.random() < 0.5 else tuple(la)
    for kind in ("wide", "narrow"):
        if kind == "wide":
            va = rng.integers(2**31 - 50, 2**31 + 50, size=sx).astype(np.int64)
            vb = rng.integers(2**30, 2**31 + 50, size=gen.shape_of(U, lb_)).astype(np.int64)
        else:
            dt_ = [np.int8, np.uint8, np.int16, np.int32, np.bool_][int(rng.integers(0, 5))]
            top_ = {np.int8: 127, np.uint8: 255, np.int16: 32767, np.int32: 2**31 - 1, np.bool_: 1}[dt_]
            va = rng.integers(max(1, (2 * top_) // 3), top_ + 1, size=sx).astype(dt_)
            vb = rng.integers(max(1, (2 * top_) // 3), top_ + 1, size=gen.shape_of(U, lb_)).astype(dt_)
            if dt_ in (np.int16, np.int32) and rng.random() < 0.5:
                # the same numbers in the other byte order (data read from a binary file written on another machine)
                va, vb = va.astype(va.dtype.newbyteorder()), vb.astype(vb.dtype.newbyteorder())
        A_ = np.vectorize(int, otypes=[object])(va) if va.size else va.astype(object)
        B_ = np.vectorize(int, otypes=[object])(vb) if vb.size else vb.astype(object)
        Bt = np.transpose(B_, [lb_.index(l) for l in la]) if len(la) > 1 else B_  # the second operand in the first one's order
        ops_ = [("add", lambda p, q: p + q, A_ + Bt), ("sub", lambda p, q: p - q, A_ - Bt), ("maximum", lambda p, q: p.maximum(q), np.maximum(A_, Bt))]
        if va.dtype.kind in "ub":
            ops_ = [o_ for o_ in ops_ if o_[0] != "sub"]  # a negative difference has no unsigned representation at all
        if kind == "wide":
            ops_.append(("mul", lambda p, q: p * q, A_ * Bt))
        for opn, f, exp in ops_:
            xa = fd.FlodymArray(dims=gen.dimset(fd, U, la), values=va.copy())
            xb = fd.FlodymArray(dims=gen.dimset(fd, U, lb_), values=vb.copy())
            rec.event("scalar-results", sig=f"{kind}-int|{opn}|{va.dtype}|{la}|{lb_}", cls=f"whole-numbers|{kind}|{opn}|{va.dtype}")
            try:
                r = f(xa, xb)
            except Exception as e:
                rec.violation("scalar-results", f"whole-number-operation-raised:{kind}", {"op": opn, "dtype": str(va.dtype), "exc": repr(e)[:200]})
                continue
            got = np.asarray(r.values)
            if tuple(r.dims.letters) != tuple(la) or got.shape != tuple(sx):
                rec.violation("scalar-results", f"whole-number-operation:result-dimensions:{kind}", {"op": opn, "got": list(r.dims.letters)})
            elif not all(float(g) == float(e_) and (got.dtype.kind not in "iu" or int(g) == int(e_)) for g, e_ in zip(got.reshape(-1).tolist(), np.asarray(exp, dtype=object).reshape(-1).tolist())):
                rec.violation("scalar-results", f"whole-number-operation:wrong-entries:{kind}:{opn}", {"dtype": str(va.dtype), "result_dtype": str(got.dtype), "observed": [float(q) for q in got.reshape(-1)[:3]], "expected": [int(q) for q in np.asarray(exp, dtype=object).reshape(-1)[:3]], "same_order": lb_ == tuple(la)})
    # one array OBJECT used again after its values were written directly (x.values[...] = ..., the documented way): results follow
    # the values it holds at the time of each operation
    if len(la) >= 2:
        xo = fd.FlodymArray(dims=gen.dimset(fd, U, la), values=gen.values_one("dyadic", rng, sx))
        yo = fd.FlodymArray(dims=gen.dimset(fd, U, la[:1]), values=gen.values_one("dyadic", rng, gen.shape_of(U, la[:1])))
        for rnd in range(3):
            for f in (lambda: xo + yo, lambda: yo - xo, lambda: xo.minimum(yo), lambda: xo * yo, lambda: xo + xo.sum_to(la[1:])):
                try:
                    f()
                except Exception:
                    pass
            if rnd == 0:
                xo.values[...] = gen.values_one("dyadic", rng, sx)
            else:
                xo.values[tuple(0 for _ in sx)] += 8.0
                yo.values[...] = yo.values * 2.0
    # subclasses (Parameter, StockArray, Flow) follow the same rules
    vq = gen.values_one("dyadic", rng, sx)
    par = fd.Parameter(dims=gen.dimset(fd, U, la), values=vq.copy(), name="par")
    sta = fd.StockArray(dims=gen.dimset(fd, U, la[::-1]), values=np.transpose(vq).copy() if len(la) > 1 else vq.copy(), name="sta")
    flo = fd.Flow(dims=gen.dimset(fd, U, la), values=gen.nonzero(vq, rng), name="flo", from_process=fd.Process(name="sysenv", id=0), to_process=fd.Process(name="use", id=1))
    for f in (lambda: par + sta, lambda: sta - par, lambda: par * flo, lambda: sta / flo, lambda: flo.minimum(par), lambda: 2 - flo, lambda: -par, lambda: par ** 2):
        try:
            f()
        except Exception:
            pass
    # non-numeric operand must be rejected
    for bad in ("2", None, [1, 2]):
        try:
            x + bad
        except Exception:
            pass


def trace_equivalence(rec, hub, seed):
    """value-obliviousness evidence: per configuration the tagged, real and taint runs execute the same flodym lines"""
    from ..trace import first_divergence, line_trace, trace_hash

    fd = hub.fd
    U = gen.universe(fd, {"a": 2, "b": 3, "c": 2})
    rng = case_nprng(seed, "c01.trace", 0, 0)
    configs = [(la, lb) for la in [("a", "b", "c"), ("c", "a"), ("b",), ()] for lb in [("a", "b", "c"), ("b", "c"), ("a",), ()]]
    equal, differing = 0, []
    for la, lb in configs:
        for kind, f in BINOPS:
            if kind == "pow" and not set(lb) <= set(la):
                continue
            traces = {}
            for reg in ("tagged", "real", "taint"):
                vx, vy = gen.values_pair(reg, kind, rng, gen.shape_of(U, la), gen.shape_of(U, lb))
                x = fd.FlodymArray(dims=gen.dimset(fd, U, la), values=vx)
                y = fd.FlodymArray(dims=gen.dimset(fd, U, lb), values=vy)
                with hub.pause(), line_trace() as seq:
                    try:
                        f(x, y)
                    except Exception:
                        pass
                traces[reg] = list(seq)
            hs = {r: trace_hash(t) for r, t in traces.items()}
            if len(set(hs.values())) == 1:
                equal += 1
            else:
                differing.append({"op": kind, "x": la, "y": lb, "divergence": first_divergence(traces["tagged"], traces["real"]) or first_divergence(traces["tagged"], traces["taint"])})
    rec.info("trace_equivalence", {"configurations": equal + len(differing), "same_line_sequence_for_tagged_real_taint": equal, "value_dependent_control_flow": differing[:10],
                                   "lines_traced_example": len(traces["tagged"])})


def big_cases(rec, hub, rng, n_cases):
    """large operands (10^4 - 10^6 entries) judged by a vectorised reference without einsum"""
    from ..oracles import big

    fd = hub.fd
    # first pair: the LARGE operand has to be summed (over b) and its remaining dimensions stand in the other relative order than in x
    pairs = [("ac", "cba"), ("abc", "cab"), ("abcd", "db"), ("abc", "ca"), ("cba", "ad"), ("ab", "cbd"), ("abc", "abc"), ("abc", "bc"), ("ab", "bcd"), ("b", "ab"), ("abc", ""), ("bac", "cba"), ("acb", "dca")]
    start = int(rng.integers(0, len(pairs)))
    for k in range(n_cases):
        U = gen.big_universe(fd, rng)
        la, lb = pairs[(start * (n_cases > 5) + k) % len(pairs)]  # the quick tier always takes the first ones: other relative axis orders
        reg = "dyadic" if rng.random() < 0.5 else "real"
        vx = gen.relayout(gen.big_values(rng, gen.shape_of(U, la), reg), rng)
        vy = gen.big_values(rng, gen.shape_of(U, lb), reg)
        for kind, f in BINOPS:
            if kind == "pow":
                continue
            vy2 = np.where(vy == 0, 1.0, vy) if kind == "div" else vy
            x = fd.FlodymArray(dims=gen.dimset(fd, U, tuple(la)), values=vx.copy(order="K"))
            y = fd.FlodymArray(dims=gen.dimset(fd, U, tuple(lb)), values=vy2.copy())
            try:
                r, e = f(x, y), None
            except Exception as ex:
                r, e = None, ex
            big.judge_binary(rec, fd, kind, x, y, r, e)


def run(rec, hub, tier, seed, shard, nshards, budget):
    fd = hub.fd
    arith.register(hub)
    rec.require("large-arrays", 5)
    rec.require("scalar-results", 20)
    rec.set_case(driver="c01.big", seed=seed, tier=tier, shard=shard, nshards=nshards, idx=shard)
    big_cases(rec, hub, case_nprng(seed, "c01.big", shard, 0), 5 if tier == "quick" else 9)
    if shard == 0:
        trace_equivalence(rec, hub, seed)
    if tier == "quick":
        letters, patterns, regimes = "abc", gen.LENGTH_PATTERNS[3], REGIMES
    else:
        letters, patterns, regimes = "abcd", gen.LENGTH_PATTERNS[4], REGIMES
    subs = gen.ordered_subsets(letters)
    pairs = list(itertools.product(subs, subs))
    space = f"all {len(pairs)} ordered pairs of ordered subsets of {letters} x 7 binary operators x {len(patterns)} length patterns x {len(regimes)} regimes"
    rec.exhaustive_spaces[space] = True
    # scalars, unary, integer dtypes: every ordered subset
    for pat in range(len(patterns)):
        U = gen.universe(fd, dict(zip(letters, patterns[pat])))
        for si, la in enumerate(subs):
            if (si + pat) % nshards != shard or not budget.ok():
                continue
            rng = case_nprng(seed, "c01.scalar", 0, f"{si}.{pat}")
            rec.set_case(driver="c01.scalar", seed=seed, tier=tier, shard=shard, nshards=nshards, idx=si, pattern=pat, a=la)
            do_scalars(rec, hub, U, la, rng)
    n = 0
    work = [(pi, pat) for pat in range(len(patterns)) for pi in range(len(pairs))]
    for w, (pi, pat) in enumerate(work):
        if w % nshards != shard:
            continue
        if not budget.ok():
            rec.exhaustive_spaces[space] = False
            break
        la, lb = pairs[pi]
        U = gen.universe(fd, dict(zip(letters, patterns[pat])), rng=case_nprng(seed, "c01.universe", 0, f"{pi}.{pat}"), twin_names=True)
        rng = case_nprng(seed, "c01.pair", 0, f"{pi}.{pat}")
        rec.set_case(driver="c01.pair", seed=seed, tier=tier, shard=shard, nshards=nshards, idx=pi, pattern=pat, a=la, b=lb)
        do_pair(rec, hub, U, la, lb, regimes, rng)
        n += 1
    rec.info("pair_cases", n)
    if tier == "thorough":
        # five dimensions: sampled ordered pairs of ordered subsets (326^2 pairs are not enumerated)
        subs5 = gen.ordered_subsets("abcde")
        U5 = gen.universe(fd, dict(zip("abcde", gen.LENGTH_PATTERNS[5][shard % 3])))
        rng5 = case_nprng(seed, "c01.pair5", shard, 0)
        for j in range(400):
            if not budget.ok():
                break
            la, lb = subs5[int(rng5.integers(0, len(subs5)))], subs5[int(rng5.integers(0, len(subs5)))]
            if int(np.prod(gen.shape_of(U5, tuple(dict.fromkeys(la + lb))))) > 2000:
                continue
            rec.set_case(driver="c01.pair5", seed=seed, tier=tier, shard=shard, nshards=nshards, idx=j, a=la, b=lb)
            do_pair(rec, hub, U5, la, lb, ("tagged", "real"), case_nprng(seed, "c01.pair5", shard, j + 1))


def replay(rec, hub, case):
    fd = hub.fd
    arith.register(hub)
    tier = case.get("tier", "quick")
    if case["driver"] == "c01.big":
        rec.set_case(**case)
        big_cases(rec, hub, case_nprng(case["seed"], "c01.big", case.get("shard", 0), 0), 5 if tier == "quick" else 9)
        return
    letters, patterns = ("abc", gen.LENGTH_PATTERNS[3]) if tier == "quick" else ("abcd", gen.LENGTH_PATTERNS[4])
    pat = case["pattern"]
    U = gen.universe(fd, dict(zip(letters, patterns[pat])), rng=case_nprng(case["seed"], "c01.universe", 0, f"{case['idx']}.{pat}") if case["driver"] == "c01.pair" else None, twin_names=True)
    rec.set_case(**case)
    if case["driver"] == "c01.pair5":
        U5 = gen.universe(fd, dict(zip("abcde", gen.LENGTH_PATTERNS[5][case["shard"] % 3])))
        do_pair(rec, hub, U5, tuple(case["a"]), tuple(case["b"]), ("tagged", "real"), case_nprng(case["seed"], "c01.pair5", case["shard"], case["idx"] + 1))
        return
    if case["driver"] == "c01.pair":
        rng = case_nprng(case["seed"], "c01.pair", 0, f"{case['idx']}.{pat}")
        do_pair(rec, hub, U, tuple(case["a"]), tuple(case["b"]), REGIMES, rng)
    else:
        rng = case_nprng(case["seed"], "c01.scalar", 0, f"{case['idx']}.{pat}")
        do_scalars(rec, hub, U, tuple(case["a"]), rng)
