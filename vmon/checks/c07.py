"""C07 — summing, casting and shares conserve totals and act by label."""

from __future__ import annotations

import itertools

import numpy as np

from .. import gen
from ..core import case_nprng
from ..oracles import reduce as red

PIGGY = True  # thorough tier also runs the repository tests / howtos / examples under these monitors
LEVEL = "exploration"
BUDGET = {"quick": 45, "thorough": 240}
SHARDS = {"quick": 1, "thorough": 16}
RULE = (
    "every call of sum_to sum_over sum_values(_to/_over) cumsum cast_to cast_values_to get_shares_over is judged in the API "
    "wrapper against LArr marginals / broadcasts by label (tagged powers of two and dyadics with ==, reals with a derived "
    "tolerance, a planted NaN must reach exactly the dependent entries; grand total preserved; shares sum to one).  "
    "Workload: for every storage order of up to 3 (quick) / 4 (thorough) dimensions, ALL ordered kept-subsets for sum_to, ALL "
    "summed-subsets for sum_over, ALL (source order, target order superset) pairs for cast_to, all cumsum letters, all share "
    "subsets; dimensions spelled as letter, name or Dimension object; unknown dimensions and non-superset targets must raise; "
    "composition laws cast->sum-back and shares*totals.  Configuration signature = (operation, source letters/lengths, request, spelling)"
)

REGIMES = ["tagged", "dyadic", "real", "taint", "ints", "wide"]


def spellings(U, letters, mode):
    if mode == 0:
        return tuple(letters)
    if mode == 1:
        return tuple(U[l].name for l in letters)
    if mode == 2:
        return tuple(U[l] for l in letters)
    if mode == 4:
        return tuple(np.str_(l) for l in letters)
    if mode == 5:
        return [U[l].name if i % 2 else l for i, l in enumerate(letters)]  # a list instead of a tuple
    if mode in (6, 7):
        return tuple([U[l], l, U[l].name][(i + mode - 6) % 3] for i, l in enumerate(letters))  # a Dimension object BEFORE letters / names
    return tuple([l, U[l].name, U[l]][i % 3] for i, l in enumerate(letters))


def do_source(rec, hub, U, all_letters, la, regimes, rng, tier):
    fd = hub.fd
    sx = gen.shape_of(U, la)
    if len(la) >= 2:
        # one array OBJECT reduced again after its values were written directly (x.values[...] = ...): every reduction follows the
        # values the array holds when it is called
        xo = fd.FlodymArray(dims=gen.dimset(fd, U, la), values=gen.values_one("dyadic", rng, sx))
        for rnd in range(3):
            for f in (lambda: xo.sum_to(la[:1]), lambda: xo.sum_over(la[:1]), lambda: xo.sum_values_to(la[-1:]), lambda: xo.get_shares_over(la[:1]), lambda: xo.cumsum(la[0]), lambda: xo.sum_values()):
                try:
                    f()
                except Exception:
                    pass
            if rnd == 0:
                xo.values[...] = np.abs(gen.values_one("dyadic", rng, sx)) + 1.0
            else:
                xo.values[tuple(0 for _ in sx)] += 16.0
    for reg in regimes:
        x0 = fd.FlodymArray(dims=gen.dimset(fd, U, la), values=gen.values_one(reg, rng, sx, layout=True))

        class _Fresh:
            """every call works on a private copy, so a defect that mutates its input cannot mask later cases"""

            def __getattr__(self, name):
                with hub.pause():
                    c = fd.FlodymArray(dims=x0.dims, values=x0.values.copy(order="K"))
                return getattr(c, name)

            def __mul__(self, other):
                with hub.pause():
                    c = fd.FlodymArray(dims=x0.dims, values=x0.values.copy(order="K"))
                return c * other

        x = _Fresh()
        # sum_to: all ordered kept subsets, four spellings
        for keep in gen.ordered_subsets(la):
            for mode in range(8 if reg == "tagged" else 1):
                try:
                    if mode % 2:
                        x.sum_to(result_dims=spellings(U, keep, mode))
                    else:
                        x.sum_to(spellings(U, keep, mode))
                except Exception:
                    pass
            for mode in (0, 1, 2, 3, 6, 7):
                try:
                    x.sum_values_to(spellings(U, keep, mode))
                except Exception:
                    pass
        # sum_over: all subsets (order irrelevant)
        for k in range(len(la) + 1):
            for over in itertools.combinations(la, k):
                for mode in range(8 if reg == "tagged" else 1):
                    try:
                        if mode % 2:
                            x.sum_over(sum_over_dims=spellings(U, over, mode))
                        else:
                            x.sum_over(spellings(U, over, mode))
                    except Exception:
                        pass
                for mode in (0, 1, 2, 3, 6, 7):
                    try:
                        x.sum_values_over(spellings(U, over[::-1] if mode % 2 else over, mode))
                    except Exception:
                        pass
                if len(over) >= 2:
                    for ov_ in (tuple(over[::-1]), tuple(over[1:] + over[:1])):  # the same dimensions named in another order
                        try:
                            x.get_shares_over(ov_)
                        except Exception:
                            pass
                try:
                    sh = x.get_shares_over(tuple(over))
                    if reg in ("tagged", "dyadic") and over:
                        # multiplying back restores the array (judged by the arithmetic/sum oracles of this run)
                        back = sh * x.sum_over(tuple(over))
                        d = np.max(np.abs(back.sum_to(tuple(la)).values - x0.values)) if x0.values.size else 0.0
                        scale = np.max(np.abs(x0.values)) if x0.values.size else 0.0
                        tot = x.sum_over(tuple(over)).values
                        if np.all(tot != 0):
                            rec.event("shares-times-totals", sig=f"{la}|{over}", cls="composition|shares*totals")
                            if d > 1e-9 * max(1.0, scale) * max(1.0, np.max(np.abs(x0.values)) / np.min(np.abs(tot))):
                                rec.violation("shares-times-totals", "shares-times-totals-differs", {"dims": la, "over": over, "max_abs_diff": float(d)})
                except Exception:
                    pass
        try:
            x.sum_values()
        except Exception:
            pass
        # operations on DERIVED arrays (results of reductions): their own dimensions decide, nothing of the parent's
        for keep in gen.ordered_subsets(la)[:: max(1, len(gen.ordered_subsets(la)) // 6)]:
            if not keep:
                continue
            gone = [l for l in la if l not in keep]
            try:
                y = x.sum_to(keep[::-1])
            except Exception:
                continue
            for f in ([lambda: y.cumsum(keep[0]), lambda: y.sum_to(keep), lambda: y.sum_over((keep[-1],)), lambda: y.get_shares_over((keep[0],)),
                       lambda: y[{keep[0]: U[keep[0]].items[0]}], lambda: y.cast_to(gen.dimset(fd, U, la))]
                      + ([lambda: y.sum_over((gone[0],)), lambda: y.sum_to(keep + (gone[0],)), lambda: y.cumsum(gone[0]), lambda: y.get_shares_over((gone[0],)),
                          lambda: y.sum_over((U[gone[0]].name,))] if gone else [])):
                try:
                    f()
                except Exception:
                    pass
        for l in la:
            for inplace in (False, True):
                try:
                    if inplace:
                        x.cumsum(dim_letter=l, inplace=True)
                        x.cumsum(l, True)  # the switch by position
                    else:
                        x.cumsum(l if rng.random() < 0.7 else np.str_(l))
                except Exception:
                    pass
        # unknown dimensions
        others = [l for l in all_letters if l not in la]
        for bad in (others[:1] + ["zz", "nope"]):
            for f in (lambda: x.sum_values_over((bad,)), lambda: x.sum_values_to((bad,)), lambda: x.sum_values_over(tuple(la[:1]) + (bad,)),
                      lambda: x.sum_to((bad,)), lambda: x.sum_over((bad,)), lambda: x.cumsum(bad), lambda: x.get_shares_over((bad,)),
                      lambda: x.sum_to(tuple(la[:1]) + (bad,))):
                try:
                    f()
                except Exception:
                    pass
        if others:
            try:
                x.sum_to((U[others[0]],))
            except Exception:
                pass
        # casts: every ordered superset of the source's letters within the universe (capped in quick tier)
        targets = [t for t in gen.ordered_subsets(all_letters) if set(la) <= set(t)]
        if tier == "quick" and len(targets) > 12:
            idx = rng.choice(len(targets), size=12, replace=False)
            targets = [targets[i] for i in sorted(idx)]
        for t in targets:
            tds = gen.dimset(fd, U, t)
            try:
                y = x.cast_to(tds) if rng.random() < 0.6 else x.cast_to(target_dims=tds)
                x.cast_values_to(target_dims=tds)
                if reg in ("tagged", "dyadic"):
                    # sum back = original x number of added label combinations
                    n_added = 1
                    for l in t:
                        if l not in la:
                            n_added *= len(U[l].items)
                    back = y.sum_to(tuple(la))
                    rec.event("cast-sum-back", sig=f"{la}|{t}", cls="composition|cast->sum_to")
                    if not np.array_equal(back.values, x0.values * n_added, equal_nan=True):
                        rec.violation("cast-sum-back", "sum-back-differs-from-original-times-count", {"source": la, "target": t, "n_added": n_added})
            except Exception:
                pass
        # a target that lacks a source LETTER but holds another dimension with the same NAME is still not a superset
        if la:
            l0 = la[int(rng.integers(0, len(la)))]
            twin = fd.Dimension(letter=l0.upper(), name=U[l0].name, items=list(U[l0].items))
            tds = fd.DimensionSet(dim_list=[twin if l == l0 else U[l] for l in la] + [U[l] for l in all_letters if l not in la][:1])
            for f in (lambda: x.cast_to(tds), lambda: x.cast_values_to(tds)):
                try:
                    f()
                except Exception:
                    pass
        # non-superset targets must raise
        for t in gen.ordered_subsets(all_letters):
            if la and not set(la) <= set(t) and len(t) <= 2:
                try:
                    x.cast_to(gen.dimset(fd, U, t))
                except Exception:
                    pass


def plan(tier):
    if tier == "quick":
        return "abc", gen.LENGTH_PATTERNS[3][:3]
    return "abcd", gen.LENGTH_PATTERNS[4]


def trace_equivalence(rec, hub, seed):
    from ..trace import first_divergence, line_trace, trace_hash

    fd = hub.fd
    U = gen.universe(fd, {"a": 2, "b": 3, "c": 2})
    rng = case_nprng(seed, "c07.trace", 0, 0)
    la = ("b", "a", "c")
    ops = {"sum_to": lambda x: x.sum_to(("c", "b")), "sum_over": lambda x: x.sum_over(("a",)), "cumsum": lambda x: x.cumsum("a"), "shares": lambda x: x.get_shares_over(("b", "c")),
           "cast_to": lambda x: x.sum_to(("a",)).cast_to(gen.dimset(fd, U, ("c", "a", "b"))), "sum_values": lambda x: x.sum_values(), "shares_all": lambda x: x.get_shares_over(la)}
    equal, differing = 0, []
    n = 0
    for name, f in ops.items():
        traces = {}
        for reg in ("tagged", "real", "taint"):
            x = fd.FlodymArray(dims=gen.dimset(fd, U, la), values=gen.values_one(reg, rng, gen.shape_of(U, la)))
            with hub.pause(), line_trace() as seq:
                try:
                    f(x)
                except Exception:
                    pass
            traces[reg] = list(seq)
            n = len(seq)
        if len({trace_hash(t) for t in traces.values()}) == 1:
            equal += 1
        else:
            differing.append({"op": name, "divergence": first_divergence(traces["tagged"], traces["real"]) or first_divergence(traces["tagged"], traces["taint"])})
    rec.info("trace_equivalence", {"configurations": equal + len(differing), "same_line_sequence_for_tagged_real_taint": equal, "value_dependent_control_flow": differing, "lines_traced_example": n})


def big_cases(rec, hub, rng, n_cases):
    from ..oracles import big

    fd = hub.fd
    for k in range(n_cases):
        U = gen.big_universe(fd, rng)
        if k % 2 == 0:
            # one LONG axis (several hundred steps, on both sides of 256 / 512) with few other items: long accumulations
            n_long = int(rng.integers(257, 700))
            U["b"] = fd.Dimension(letter="b", name=gen.NAMES["b"], items=[1500 + q for q in range(n_long)], dtype=int)
            U["a"] = fd.Dimension(letter="a", name=gen.NAMES["a"], items=[f"a{q:03d}" for q in rng.permutation(int(rng.integers(3, 12)))], dtype=str)
            U["c"] = fd.Dimension(letter="c", name=gen.NAMES["c"], items=[f"c{q}" for q in range(int(rng.integers(2, 8)))])
        la = tuple(str(q) for q in rng.permutation(list("abcd"))[: int(rng.integers(2, 5))])
        if k % 2 == 0 and "b" not in la:
            la = la[:-1] + ("b",) if rng.random() < 0.5 else ("b",) + la[1:]
        reg = "dyadic" if rng.random() < 0.5 else "real"
        v = gen.relayout(gen.big_values(rng, gen.shape_of(U, la), reg), rng)

        def mk():
            return fd.FlodymArray(dims=gen.dimset(fd, U, la), values=v.copy(order="K"))

        keep = tuple(str(q) for q in rng.permutation(list(la))[: int(rng.integers(0, len(la)))])
        over = tuple(l for l in la if l not in keep)
        jobs = [("sum_to", keep, lambda x: x.sum_to(keep)), ("sum_over", over, lambda x: x.sum_over(over)), ("cumsum", la[-1], lambda x: x.cumsum(la[-1])), ("cumsum", la[0], lambda x: x.cumsum(la[0]))]
        if "b" in la:
            jobs.append(("cumsum", "b", lambda x: (x.cumsum("b", inplace=True), x)[1]))
        if over and len(over) < len(la):
            jobs.append(("shares", over, lambda x: x.get_shares_over(over)))
        for kind, arg, f in jobs:
            x, x_in = mk(), mk()
            if kind == "shares":
                x.values[...] = np.abs(x.values) + 1.0
                x_in.values[...] = np.abs(x_in.values) + 1.0
            try:
                r, e = f(x), None
            except Exception as ex:
                r, e = None, ex
            big.judge_reduce(rec, fd, kind, x_in, arg, r, e)  # x_in: the operand as it was (one job accumulates in place)
        # cast of a small part to the full set in another order
        src_l = tuple(la[:2][::-1])
        tgt_l = tuple(str(q) for q in rng.permutation(list(la)))
        xs_ = fd.FlodymArray(dims=gen.dimset(fd, U, src_l), values=gen.big_values(rng, gen.shape_of(U, src_l), "dyadic"))
        tds = gen.dimset(fd, U, tgt_l)
        try:
            r, e = xs_.cast_to(tds), None
        except Exception as ex:
            r, e = None, ex
        big.judge_reduce(rec, fd, "cast_to", xs_, tgt_l, r, e, target_dims=[(d.letter, d.name, tuple(d.items)) for d in tds])


MN = "narrow-integer-values"


def narrow_int_cases(rec, hub, rng, n_cases):
    """Whole numbers stored in a narrow dtype (int8 / uint8 / int16 / int32 / bool: counts, flags) whose totals leave the dtype's range
    but are ordinary numbers: accumulations and sums are those of the NUMBERS.  Judged exactly against Python integers."""
    fd = hub.fd
    for k in range(n_cases):
        U = gen.universe(fd, {"a": 3, "b": 4, "c": 2}, rng=rng)
        la = tuple(str(q) for q in rng.permutation(list("abc"))[: int(rng.integers(1, 4))])
        shape = gen.shape_of(U, la)
        dt = [np.int8, np.uint8, np.int16, np.int32, np.bool_, np.uint64][int(rng.integers(0, 6))]
        top = {np.int8: 127, np.uint8: 255, np.int16: 32767, np.int32: 2**31 - 1, np.bool_: 1, np.uint64: 0}[dt]
        if dt is np.uint64:
            # unsigned 64-bit counts: one entry beyond 2**63 (no signed type holds it), the others small; every total stays below 2**64
            v = rng.integers(1, 1000, size=shape).astype(np.uint64)
            if v.size:
                v.reshape(-1)[int(rng.integers(0, v.size))] = np.uint64(2**63 + int(rng.integers(1, 10**6)))
        else:
            v = rng.integers(max(1, (2 * top) // 3), top + 1, size=shape).astype(dt)  # any two of them exceed the range
            if dt in (np.int16, np.int32) and rng.random() < 0.5:
                v = v.astype(v.dtype.newbyteorder())  # the same numbers in the other byte order
        true = np.asarray(v, dtype=object).astype(object) if dt is not np.bool_ else np.asarray(v, dtype=int).astype(object)
        true = np.vectorize(int, otypes=[object])(np.asarray(v)) if v.size else true

        def mk():
            return fd.FlodymArray(dims=gen.dimset(fd, U, la), values=v.copy())

        def judge(what, got, exp, arg):
            rec.event(MN, sig=f"{what}|{np.dtype(dt).name}|{la}|{arg}", cls=f"narrow|{what}|{np.dtype(dt).name}", sample={"op": what, "dtype": np.dtype(dt).name, "dims": list(la), "arg": str(arg)})
            g = np.asarray(got)
            e = np.asarray(exp, dtype=object)
            if g.shape != e.shape:
                rec.violation(MN, f"{what}:shape-differs", {"dtype": np.dtype(dt).name, "got": list(g.shape), "expected": list(e.shape)})
                return
            same = all((int(a) == int(b)) if g.dtype.kind in "iu" else (float(a) == float(b)) for a, b in zip(g.reshape(-1).tolist(), e.reshape(-1).tolist()))
            if same:
                return
            # structural signature of the known finding: the result is the true total reduced to the operand's own narrow dtype
            bits = np.dtype(dt).itemsize * 8
            if dt is np.bool_:
                wrapped = all(bool(a) == (b != 0) for a, b in zip(g.reshape(-1).tolist(), e.reshape(-1).tolist())) and g.dtype == np.bool_
            else:
                lo = 0 if np.dtype(dt).kind == "u" else -(2 ** (bits - 1))
                wrapped = g.dtype == np.dtype(dt) and all(int(a) == ((int(b) - lo) % (2**bits)) + lo for a, b in zip(g.reshape(-1).tolist(), e.reshape(-1).tolist()))
            mech = f"{what}:total-wraps-around-in-the-operand's-narrow-integer-dtype" if wrapped and what in ("sum_to", "sum_over") else f"{what}:wrong-total-for-narrow-integer-values"
            rec.violation(MN, mech, {"dtype": np.dtype(dt).name, "dims": list(la), "arg": str(arg), "observed": [float(q) for q in g.reshape(-1)[:4]], "expected": [int(q) for q in e.reshape(-1)[:4]], "result_dtype": str(g.dtype)})

        for l in la:
            ax = la.index(l)
            exp = np.cumsum(true, axis=ax)
            for inplace in (False, True):
                x = mk()
                try:
                    r = x.cumsum(l, inplace=inplace)
                    judge("cumsum" + ("-inplace" if inplace else ""), (x if inplace else r).values, exp, l)
                except Exception as e_:
                    rec.violation(MN, "cumsum:raised", {"dtype": np.dtype(dt).name, "exc": repr(e_)[:200]})
        x = mk()
        try:
            judge("sum_values", np.asarray(x.sum_values()), np.asarray(true.sum(), dtype=object), "-")
        except Exception as e_:
            rec.violation(MN, "sum_values:raised", {"dtype": np.dtype(dt).name, "exc": repr(e_)[:200]})
        if len(la) >= 2:
            keep = la[:1]
            try:
                judge("sum_to", mk().sum_to(keep).values, true.sum(axis=tuple(range(1, len(la)))), keep)
                judge("sum_over", mk().sum_over(la[1:]).values, true.sum(axis=tuple(range(1, len(la)))), la[1:])
            except Exception as e_:
                rec.violation(MN, "sum_to:raised", {"dtype": np.dtype(dt).name, "exc": repr(e_)[:200]})
            # the SAME array object summed, then its numbers overwritten in place (x.values[...] = other counts), then summed again: the
            # second sums are those of the numbers it holds then
            try:
                x2 = mk()
                x2.sum_to(keep), x2.sum_over(la[1:])
                v2 = np.ascontiguousarray(np.asarray(v).reshape(-1)[::-1]).reshape(shape)
                true2 = np.vectorize(int, otypes=[object])(v2)
                x2.values[...] = v2
                judge("sum_to", x2.sum_to(keep).values, true2.sum(axis=tuple(range(1, len(la)))), f"{keep} after an in-place write")
                judge("sum_over", x2.sum_over(la[1:]).values, true2.sum(axis=tuple(range(1, len(la)))), f"{la[1:]} after an in-place write")
            except Exception as e_:
                rec.violation(MN, "sum_to:raised", {"dtype": np.dtype(dt).name, "exc": repr(e_)[:200], "after": "in-place write"})


def run(rec, hub, tier, seed, shard, nshards, budget):
    fd = hub.fd
    red.register(hub)
    rec.require("large-arrays", 5)
    rec.require(MN, 20)
    rec.set_case(driver="c07.narrow", seed=seed, tier=tier, shard=shard, nshards=nshards, idx=shard)
    with hub.pause():
        narrow_int_cases(rec, hub, case_nprng(seed, "c07.narrow", shard, 0), 12 if tier == "quick" else 40)
    rec.set_case(driver="c07.big", seed=seed, tier=tier, shard=shard, nshards=nshards, idx=shard)
    big_cases(rec, hub, case_nprng(seed, "c07.big", shard, 0), 4 if tier == "quick" else 8)
    if shard == 0:
        trace_equivalence(rec, hub, seed)
    rec.deciding.update({"cast-sum-back", "shares-times-totals"})
    letters, patterns = plan(tier)
    sources = gen.ordered_subsets(letters)
    space = f"all {len(sources)} ordered sources over {letters} x all kept/summed/cast-target/cumsum/share requests x {len(patterns)} length patterns"
    rec.exhaustive_spaces[space] = tier == "thorough"
    work = [(si, pi) for pi in range(len(patterns)) for si in range(len(sources))]
    for w, (si, pi) in enumerate(work):
        if w % nshards != shard:
            continue
        if not budget.ok():
            rec.exhaustive_spaces[space] = False
            break
        U = gen.universe(fd, dict(zip(letters, patterns[pi])), rng=case_nprng(seed, "c07.universe", 0, f"{si}.{pi}"))
        rng = case_nprng(seed, "c07.source", 0, f"{si}.{pi}")
        rec.set_case(driver="c07.source", seed=seed, tier=tier, shard=shard, nshards=nshards, idx=si, pattern=pi, a=sources[si])
        do_source(rec, hub, U, letters, sources[si], REGIMES, rng, tier)


def replay(rec, hub, case):
    fd = hub.fd
    red.register(hub)
    if case["driver"] == "c07.narrow":
        with hub.pause():
            narrow_int_cases(rec, hub, case_nprng(case["seed"], "c07.narrow", case.get("shard", 0), 0), 12 if case.get("tier", "quick") == "quick" else 40)
        return
    if case["driver"] == "c07.big":
        rec.set_case(**case)
        big_cases(rec, hub, case_nprng(case["seed"], "c07.big", case.get("shard", 0), 0), 4 if case.get("tier", "quick") == "quick" else 8)
        return
    letters, patterns = plan(case.get("tier", "quick"))
    U = gen.universe(fd, dict(zip(letters, patterns[case["pattern"]])), rng=case_nprng(case["seed"], "c07.universe", 0, f"{case['idx']}.{case['pattern']}"))
    rng = case_nprng(case["seed"], "c07.source", 0, f"{case['idx']}.{case['pattern']}")
    rec.set_case(**case)
    do_source(rec, hub, U, letters, tuple(case["a"]), REGIMES, rng, case.get("tier", "quick"))
