"""C08 — survival tables are valid and equal the declared lifetime distribution."""

from __future__ import annotations

import numpy as np

from ..core import case_nprng
from ..drivers import dsm
from ..oracles import stock as S

PIGGY = True  # thorough tier also runs the repository tests / howtos / examples under these monitors
LEVEL = "exploration"
BUDGET = {"quick": 75, "thorough": 330}
SHARDS = {"quick": 1, "thorough": 16}
RULE = (
    "every read of the public sf / pdf properties is judged in the wrapper: zero above the diagonal, in [0,1], non-increasing with age, "
    "pdf >= 0, sf + cumulated pdf = 1, and equality (1e-11) with closed-form survival functions (math.erfc/exp/log) evaluated at the age "
    "from the inflow instant (start/middle/end or the n-point Gauss-Lobatto average with independently computed nodes/weights) to the end "
    "of year t, using the parameter arrays the model holds; the driver additionally compares with its own by-label ground truth of the "
    "parameters (scalar / arrays on any dim subset in any order / time-varying), so parameter casting is judged too.  The shipped quadrature "
    "tables are compared with independent Gauss-Lobatto rules for all n.  Workload: 5 models x 3 inflow_at x n_pts 1..10 x grids (unit, "
    "constant, uneven, half-integer) x parameter shapes x 0-2 extra dims.  Configuration signature = (model, inflow_at, n_pts, n_t, extra "
    "shape, grid class, time-varying or not)"
)


def one(rec, hub, seed, tier, i):
    fd = hub.fd
    rng = case_nprng(seed, "c08.table", 0, i)
    model = dsm.LM_NAMES[i % 5]
    cfg = dsm.make_config(fd, rng, tier, wide_p=0.008, model=model)
    cfg["inflow_at"] = ["start", "middle", "end"][(i // 5) % 3]
    cfg["n_pts"] = 1 if (i // 15) % 2 == 0 else 1 + (i // 30) % 10
    if len(cfg["items"]) > 60:
        cfg["n_pts"] = min(cfg["n_pts"], 2 if (len(cfg["items"]) > 300 or len(cfg["shape"]) > 1 and cfg["shape"][1] > 100) else 3)  # keeps the reference affordable
    if i % 7 == 3:
        cfg["param_form"] = "ndarray" if (i // 7) % 2 else "list"
        if cfg["param_form"] == "ndarray" and (i // 14) % 3:
            # the user's parameter arrays in half or single precision (read from a compact file): the model works with exactly the
            # numbers those arrays hold, at full precision
            cfg["prm_dtype"] = [None, np.float16, np.float32][(i // 14) % 3]
            cfg["truth"] = {k_: np.array(np.array(v_, dtype=cfg["prm_dtype"]), dtype=float) for k_, v_ in cfg["truth"].items()}
    if i % 7 == 5:
        cfg["param_form"] = "ndarray-keepdims" if (i // 7) % 3 else "list-keepdims"
    late = [] if i % 4 == 1 else None
    lm = dsm.build_lm(fd, cfg, late=late)
    if i % 4 in (1, 2):
        # tables asked for while the model cannot be evaluated (parameters not yet set / a setting the builder refuses): the refusal
        # is caught by the user, the cause corrected, and the tables read then must be those of the model as it stands
        if late is None:
            lm.n_pts_per_interval = int(rng.choice([11, 12, 30]))
        for a_ in rng.permutation(2)[: int(rng.integers(1, 3))]:
            try:
                (lambda: lm.pdf, lambda: lm.sf)[int(a_)]()
            except Exception:
                pass
        if late is None:
            lm.n_pts_per_interval = cfg["n_pts"]
        else:
            lm.set_prms(**late[0])
    sf = np.asarray(lm.sf)
    pdf = np.asarray(lm.pdf)
    # driver-side ground truth of the parameters (by label, independent of flodym's casting)
    st = S.lm_state(lm)
    st["prms"] = {k: np.array(v, dtype=float) for k, v in cfg["truth"].items()}
    S.check_tables(rec, st, sf, pdf, "C08", where="driver ground truth")
    if i % 8 in (2, 5):
        # a read that is refused (a setting the builder refuses / parameters the distribution refuses), then the cause corrected AND new
        # parameters given before the first successful read: the tables are those of the new parameters
        lm_r = dsm.build_lm(fd, cfg)
        how_r = "setting" if i % 8 == 2 else "parameters"
        try:
            if how_r == "setting":
                lm_r.n_pts_per_interval = int(rng.choice([11, 15]))
            else:
                lm_r.set_prms(**{k: -np.array(v, dtype=float) for k, v in cfg["truth"].items()})
            for a_ in rng.permutation(2)[: int(rng.integers(1, 3))]:
                try:
                    (lambda: lm_r.pdf, lambda: lm_r.sf)[int(a_)]()
                except Exception:
                    pass
            lm_r.n_pts_per_interval = cfg["n_pts"]
            new_r = {k: np.array(v, dtype=float) * (1.3 if k in ("mean", "weibull_scale") else 1.15) for k, v in cfg["truth"].items()}
            lm_r.set_prms(**{k: v.copy() for k, v in new_r.items()})
            st_r = S.lm_state(lm_r)
            st_r["prms"] = new_r
            S.check_tables(rec, st_r, np.asarray(lm_r.sf), np.asarray(lm_r.pdf), "C08", where=f"first tables after a read refused for its {how_r}, the cause corrected and new parameters given")
        except Exception as e:
            rec.skip("sf-tables", f"refused-read sequence not possible: {type(e).__name__}")
    if i % 3 == 0:
        # re-parameterisation: new objects, then the SAME objects with values changed in place; tables must follow what was passed
        objs = {k: fd.FlodymArray(dims=cfg["dims"], values=np.array(v) * 1.25) for k, v in cfg["truth"].items()}
        lm.set_prms(**objs)
        np.asarray(lm.sf)
        new_truth = {}
        for k, o in objs.items():
            o.values[...] = np.array(cfg["truth"][k]) * (1.5 if k in ("mean", "weibull_scale") else 1.1)
            new_truth[k] = np.array(o.values, dtype=float)
        lm.set_prms(**objs)
        st2 = S.lm_state(lm)
        st2["prms"] = new_truth
        S.check_tables(rec, st2, np.asarray(lm.sf), np.asarray(lm.pdf), "C08", where="after set_prms with the same objects changed in place")
    if i % 6 == 3:
        # parameters first given as whole numbers in an integer dtype (lifetimes in years), fractional ones later
        ints = {k: np.maximum(np.round(np.array(v, dtype=float)), 1.0).astype(np.int64) for k, v in cfg["truth"].items()}
        form = int(rng.integers(0, 3))
        given = {k: (fd.FlodymArray(dims=cfg["dims"], values=v) if form == 0 else fd.Parameter(dims=cfg["dims"], values=v, name=k) if form == 1 else v) for k, v in ints.items()}
        lm_i = getattr(fd, model)(dims=cfg["dims"], time_letter=cfg["tl"], inflow_at=cfg["inflow_at"], n_pts_per_interval=cfg["n_pts"], **given)
        st_i = S.lm_state(lm_i)
        st_i["prms"] = {k: np.array(v, dtype=float) for k, v in ints.items()}
        S.check_tables(rec, st_i, np.asarray(lm_i.sf), np.asarray(lm_i.pdf), "C08", where="whole-number parameters in an integer dtype")
        lm_i.set_prms(**{k: fd.FlodymArray(dims=cfg["dims"], values=np.array(v, dtype=float)) for k, v in cfg["truth"].items()})
        st_i = S.lm_state(lm_i)
        st_i["prms"] = {k: np.array(v, dtype=float) for k, v in cfg["truth"].items()}
        S.check_tables(rec, st_i, np.asarray(lm_i.sf), np.asarray(lm_i.pdf), "C08", where="fractional parameters after whole-number ones")
    if i % 5 == 2:
        # copies of a model (shallow model_copy, deepcopy, pickle round trip) are models of their own: re-parameterising the original
        # leaves their tables those of the parameters THEY hold
        import copy as _copy
        import pickle as _pickle

        lm0 = dsm.build_lm(fd, cfg)
        np.asarray(lm0.sf), np.asarray(lm0.pdf)
        how = ["model_copy", "deepcopy", "pickle", "model_copy-deep"][int(rng.integers(0, 4))]
        try:
            twin = {"model_copy": lambda: lm0.model_copy(), "deepcopy": lambda: _copy.deepcopy(lm0), "pickle": lambda: _pickle.loads(_pickle.dumps(lm0)), "model_copy-deep": lambda: lm0.model_copy(deep=True)}[how]()
        except Exception as e:
            twin = None
            rec.skip("sf-tables", f"{how} of a lifetime model not possible: {type(e).__name__}")
        if twin is not None:
            np.asarray(twin.sf)
            lm0.set_prms(**{k: np.array(v) * (1.4 if k in ("mean", "weibull_scale") else 1.0) for k, v in cfg["truth"].items()})
            np.asarray(lm0.sf), np.asarray(lm0.pdf)
            st_t = S.lm_state(twin)
            st_t["prms"] = {k: np.array(v, dtype=float) for k, v in cfg["truth"].items()}
            S.check_tables(rec, st_t, np.asarray(twin.sf), np.asarray(twin.pdf), "C08", where=f"{how} of a model whose original was re-parameterised afterwards")
    rec.event("parameter-shapes", sig="|".join(f"{k}:{''.join(v[0])}" for k, v in cfg["given"].items()) + f"|{cfg['shape']}", cls="param-dims|" + ",".join(str(len(v[0])) for v in cfg["given"].values()))


def run(rec, hub, tier, seed, shard, nshards, budget):
    from ..oracles import bystand

    bystand.register(hub, "C08")
    S.register_c08(hub)
    if shard == 0:
        S.check_quadrature_tables(rec, hub.fd)
    n = 500 if tier == "quick" else 4000
    for k in range(n):
        if not budget.ok():
            break
        i = k * nshards + shard
        rec.set_case(driver="c08.table", seed=seed, tier=tier, shard=shard, nshards=nshards, idx=i)
        one(rec, hub, seed, tier, i)


def replay(rec, hub, case):
    from ..oracles import bystand

    bystand.register(hub, "C08")
    S.register_c08(hub)
    S.check_quadrature_tables(rec, hub.fd)
    rec.set_case(**case)
    one(rec, hub, case["seed"], case.get("tier", "quick"), case["idx"])
