"""C09 — cohort tables add up to the totals and each cohort is conserved."""

from __future__ import annotations

import numpy as np

from ..core import case_nprng
from ..drivers import dsm
from ..oracles import stock as S

PIGGY = True  # thorough tier also runs the repository tests / howtos / examples under these monitors
LEVEL = "exploration"
PROPS = ("C09",)
BUDGET = {"quick": 50, "thorough": 330}
SHARDS = {"quick": 1, "thorough": 16}
RULE = (
    "on every return of compute() of both DSM classes (both solvers) the wrapper reads get_stock_by_cohort / get_outflow_by_cohort and checks: "
    "stock = sum over cohorts, outflow = sum over cohorts, both tables zero for cohort > year, stock_by_cohort[t,c] = inflow[c]*dt[c]*sf[t,c], "
    "non-increasing in t for non-negative inflow, and inflow[c]*dt[c] = stock_by_cohort[t,c] + sum_{tau<=t} outflow_by_cohort[tau,c]*dt[tau] "
    "(relative tolerance 1e-9 on the entered mass).  Workload: the C03 matrix restricted to the DSM classes.  Configuration signature = "
    "(class, solver, lifetime model, grid class, n_t, extra shape)"
)


def one(rec, hub, seed, tier, i):
    fd = hub.fd
    rng = case_nprng(seed, "c09.model", 0, i)
    which = i % 4
    with dsm.quiet():
        if which == 0:
            cfg = dsm.make_config(fd, rng, tier, wide_p=0.008)
            if i % 5 == 1:
                cfg["param_form"], cfg["handed"] = "ndarray", []
            s = dsm.make_stock(fd, cfg, "InflowDrivenDSM", inflow=dsm.driver_values(rng, cfg["shape"], str(rng.choice(["positive", "positive", "scaled:positive", "collapse"]))))
            for buf in cfg.get("handed") or []:
                # the caller refills the buffers it handed the parameters over in (for the next model) before the stock is computed:
                # the parameters belong to the model from the hand-over on
                buf[...] = buf * 3.0 + 1.0
            s.compute()
        elif which == 1:
            cfg = dsm.make_config(fd, rng, tier, wide_p=0.008)
            if i % 5 == 1:
                cfg["param_form"], cfg["handed"] = "ndarray", []
            s = dsm.make_stock(fd, cfg, "InflowDrivenDSM", inflow=dsm.driver_values(rng, cfg["shape"], str(rng.choice(["positive", "mixed"]))))
            for buf in cfg.get("handed") or []:
                buf[...] = buf * 3.0 + 1.0
            s.compute()
        else:
            cfg, lm = dsm.make_solvable(fd, rng, tier)
            if cfg is None:
                rec.skip(S.M09, "no solvable configuration found")
                return
            s = dsm.make_stock(fd, cfg, "StockDrivenDSM", solver="manual" if which == 2 else "lapack", lm=lm,
                               stock=dsm.driver_values(rng, cfg["shape"], str(rng.choice(["stock", "growing", "scaled:growing"]))))
            s.compute()
        if hasattr(s, "lifetime_model") and i % 5 == 1 and len(cfg["items"]) <= 40:
            # "its survival share" is the share the declared distribution gives (C08 decides the tables at large; here the table the
            # cohorts were actually built from is compared with the distribution for the configurations of this check)
            with hub.pause():
                st_ = S.lm_state(s.lifetime_model)
                st_["prms"] = {k_: np.array(v_, dtype=float) for k_, v_ in cfg["truth"].items()}
                S.check_tables(rec, st_, np.asarray(s.lifetime_model.sf), np.asarray(s.lifetime_model.pdf), "C09", where="table behind the cohort stocks")
        if hasattr(s, "lifetime_model") and rng.random() < 0.3:
            # the same stock and the same lifetime model once more with other driver values (cached tables are shared state)
            drv = s.stock if type(s).__name__ == "StockDrivenDSM" else s.inflow
            drv.values[...] = drv.values * rng.uniform(0.5, 2.0, size=drv.values.shape)
            s.compute()
            # and a second stock of the other kind that shares the lifetime-model instance
            other = dsm.make_stock(fd, cfg, "InflowDrivenDSM", lm=s.lifetime_model, inflow=np.abs(np.asarray(s.inflow.values, dtype=float)))
            other.compute()
        if hasattr(s, "lifetime_model") and rng.random() < 0.2:
            # a shallow copy of the stock's lifetime model (model_copy() / copy.copy) is given other parameters and used; the stock,
            # computed again with its own model, is what it was
            import copy as _copy

            lm_cp = s.lifetime_model.model_copy() if rng.random() < 0.5 else _copy.copy(s.lifetime_model)
            lm_cp.set_prms(**{pn: np.array(v) * (1.7 if pn in ("mean", "weibull_scale") else 1.0) for pn, v in cfg["truth"].items()})
            lm_cp.sf, lm_cp.pdf
            s.compute()
        if hasattr(s, "lifetime_model") and rng.random() < 0.25:
            # the same object once more with a driver that is zero everywhere (a scenario without the product): every result,
            # the cohort tables included, is that of an empty stock
            drv = s.stock if type(s).__name__ == "StockDrivenDSM" else s.inflow
            drv.values[...] = 0
            s.compute()
        if hasattr(s, "lifetime_model") and rng.random() < 0.25 and len(cfg["items"]) <= 60:
            dsm.refused_then_corrected(hub, s, cfg, rng)
        if hasattr(s, "lifetime_model") and rng.random() < 0.4:
            # same objects, other parameters: the identities must hold for the recomputed stock as well
            lm = s.lifetime_model
            kw = {}
            for pn, v in cfg["truth"].items():
                f = rng.uniform(1.05, 1.6)
                kw[pn] = np.array(v) * (f if pn in ("mean", "weibull_scale") else 1.0)
            lm.set_prms(**kw)
            if rng.random() < 0.5:
                lm.sf
            s.compute()


def nearly_unsolvable_label_case(rec, hub, rng):
    """A stock-driven model (forward substitution) in which one product leaves almost entirely within the period it enters: of its
    inflow only a share of ~1e-13 ... 1e-17 is still there at the period's end, so the inflow behind its (ordinary) stock is larger
    by that factor.  The cohort identities hold for it like for every other label (judged by the monitors on compute())."""
    fd = hub.fd
    n = int(rng.integers(4, 9))
    step = float(rng.choice([1, 1, 2, 5]))
    tdim = fd.Dimension(letter="t", name="time", items=[2000 + int(step) * j for j in range(n)])
    pdim = fd.Dimension(letter="p", name="product", items=["car", "newspaper", "bicycle"][: int(rng.integers(2, 4))], dtype=str)
    dims = fd.DimensionSet(dim_list=[tdim, pdim])
    k = len(pdim.items)
    mean = rng.uniform(2.0, 5.0, size=k) * step
    std = mean * 0.3
    short = int(rng.integers(0, k))
    z = float(rng.uniform(7.4, 8.4))  # survival share at the end of the first period: 1e-13 ... 1e-17
    mean[short] = 0.05 * step
    std[short] = (0.5 * step - mean[short]) / z
    stock = np.cumsum(rng.uniform(1.0, 10.0, size=dims.shape), axis=0) + 5.0
    s = fd.StockDrivenDSM(dims=dims, stock=fd.StockArray(dims=dims, values=stock), solver="manual", time_letter="t",
                          lifetime_model=fd.NormalLifetime(dims=dims, time_letter="t", mean=fd.FlodymArray(dims=dims[("p",)], values=mean), std=fd.FlodymArray(dims=dims[("p",)], values=std)))
    with dsm.quiet(), np.errstate(all="ignore"):
        s.compute()


def run(rec, hub, tier, seed, shard, nshards, budget):
    from ..oracles import bystand

    bystand.register(hub, "C09")
    S.register_compute(hub, PROPS)
    n = 1500 if tier == "quick" else 6000
    for k in range(n):
        if not budget.ok():
            break
        i = k * nshards + shard
        rec.set_case(driver="c09.model", seed=seed, tier=tier, shard=shard, nshards=nshards, idx=i)
        try:
            one(rec, hub, seed, tier, i)
        except Exception as e:
            rec.violation(S.M09, "compute-raised-on-a-valid-configuration", {"exc": repr(e)[:300]})
        if k % 30 == 11:
            rec.set_case(driver="c09.nearly", seed=seed, tier=tier, shard=shard, nshards=nshards, idx=i)
            nearly_unsolvable_label_case(rec, hub, case_nprng(seed, "c09.nearly", 0, i))


def replay(rec, hub, case):
    from ..oracles import bystand

    bystand.register(hub, "C09")
    S.register_compute(hub, PROPS)
    rec.set_case(**case)
    if case["driver"] == "c09.nearly":
        nearly_unsolvable_label_case(rec, hub, case_nprng(case["seed"], "c09.nearly", 0, case["idx"]))
        return
    one(rec, hub, case["seed"], case.get("tier", "quick"), case["idx"])
