"""C15 — operations never modify their inputs, and results are independent objects."""

from __future__ import annotations

import numpy as np

from .. import gen
from ..core import case_nprng, interleave
from ..drivers import index as drv
from ..drivers import program
from ..model import Snap
from ..oracles import inv

PIGGY = True  # thorough tier also runs the repository tests / howtos / examples under these monitors
LEVEL = "exploration"
PROPS = ("C15",)
BUDGET = {"quick": 50, "thorough": 300}
SHARDS = {"quick": 1, "thorough": 16}
RULE = (
    "global monitor on every exit (normal or raising) of every wrapped public call: each FlodymArray among arguments, results and "
    "the driver's pool has values.shape == dims.shape over distinct letters; after an exception every argument equals its deep "
    "snapshot; constructors / set_values / whole-array assignment given an ndarray of another shape must raise; stock constructors "
    "given arrays or lifetime models with other dims or time not first must raise.  Fault enumeration: random programs over a pool of "
    "arrays (constructors, operators, reductions, slicing reads/writes, conversions, stack/split, stocks) with ~30% deliberately "
    "ill-formed steps (wrong shapes, unknown items/dimensions, non-superset casts, faulty frames, mismatching stock arrays), plus the "
    "index driver's whole-array and error cases; the whole pool is re-checked after every step.  Configuration signature = (operation, "
    "exit kind, exception type / shape pair)"
)


def frames_io(rec, hub, rng):
    """imports / exports with caller-owned frames, arrays and files: none of them may be changed"""
    from ..drivers import frames as F

    fd = hub.fd
    spec, dims = F.make_dims(fd, rng)
    values = F.make_values(rng, dims.shape)
    recs = F.long_records(spec, values)
    k = len(spec)
    for header in ("names", "letters", "mixed"):
        layout = "wide" if rng.random() < 0.4 and any(len(s_[2]) > 1 for s_ in spec) else "long"
        wd = None
        if layout == "wide":
            cands = [j for j in range(k) if len(spec[j][2]) > 1]
            wd = cands[int(rng.integers(0, len(cands)))]
        df, info = F.render(spec, recs, rng, layout=layout, wide_dim=wd, header=header, in_index=str(rng.choice(["none", "none", "all"])), omit_single=bool(rng.random() < 0.4))
        if rng.random() < 0.5:
            df = df.reset_index(drop=True) if df.index.names == [None] else df
        try:
            fd.FlodymArray.from_df(dims=dims, df=df)
        except Exception:
            pass
        t = fd.FlodymArray(dims=dims)
        try:
            t.set_values_from_df(df, allow_missing_values=bool(rng.integers(0, 2)))
        except Exception:
            pass
        try:
            x = fd.FlodymArray(dims=dims, values=values.copy())
            x.to_df(index=bool(rng.integers(0, 2)))
        except Exception:
            pass


def system_io(rec, hub, rng, i):
    """building systems / stocks / lifetime models from existing arrays, exporting and plotting: inputs stay untouched"""
    import os
    import shutil
    import tempfile
    import importlib

    from ..attach import install_export_hooks
    from ..drivers import system as SY
    from .c19 import fill

    fd = hub.fd
    install_export_hooks(hub)
    ex = importlib.import_module("flodym.export")
    d = SY.gen_def(rng, max_flows=5, max_stocks=2)
    mfa = SY.build_system(fd, d)
    fill(mfa, rng)
    # a system assembled from existing arrays (the constructor must not touch them)
    try:
        fd.MFASystem(dims=mfa.dims, parameters=dict(mfa.parameters), processes=dict(mfa.processes), flows=dict(mfa.flows), stocks=dict(mfa.stocks))
    except Exception:
        pass
    # the system's own checks read the system; with negative / NaN entries somewhere they warn or raise, and change nothing
    neg = [f_ for f_ in mfa.flows.values() if f_.values.size]
    if neg:
        for f_ in [neg[int(q)] for q in rng.permutation(len(neg))[:2]]:
            f_.values.reshape(-1)[int(rng.integers(0, f_.values.size))] = -abs(float(f_.values.reshape(-1)[0])) - 5.0
    for f in (lambda: mfa.check_mass_balance(raise_error=False), lambda: mfa.check_mass_balance(), lambda: mfa.check_flows(), lambda: mfa.check_flows(raise_error=True), lambda: mfa.check_flows(verbose=True),
              lambda: mfa.check_mass_balance(tolerance=1e9, raise_error=False)):
        try:
            f()
        except Exception:
            pass
    tmp = tempfile.mkdtemp(prefix="vmon-c15-")
    try:
        for f in (lambda: ex.convert_to_dict(mfa), lambda: ex.convert_to_dict(mfa, type="pandas"), lambda: ex.export_mfa_to_pickle(mfa, os.path.join(tmp, "m.pickle")),
                  lambda: ex.export_mfa_flows_to_csv(mfa, os.path.join(tmp, "f")), lambda: ex.export_mfa_stocks_to_csv(mfa, os.path.join(tmp, "s"), with_in_and_out=True)):
            try:
                f()
            except Exception:
                pass
    finally:
        shutil.rmtree(tmp, ignore_errors=True)
    if mfa.flows:
        try:
            importlib.import_module("flodym.export.sankey").PlotlySankeyPlotter(mfa=mfa, exclude_processes=[]).plot()
        except Exception:
            pass
    # plotters and stock / lifetime-model construction from arrays
    from .. import gen

    U = gen.universe(fd, {"a": 2, "b": 3})
    arr = fd.FlodymArray(dims=gen.dimset(fd, U, ("b", "a")), values=gen.values_one("dyadic", rng, (3, 2)))
    xarr = fd.FlodymArray(dims=gen.dimset(fd, U, ("b",)), values=np.array([1.0, 2.0, 4.0]))
    ap = importlib.import_module("flodym.export.array_plotter")
    for cls in (ap.PlotlyArrayPlotter, ap.PyplotArrayPlotter):
        try:
            fig = cls(array=arr, intra_line_dim="b", linecolor_dim="a", x_array=xarr).plot()
            if cls is ap.PyplotArrayPlotter:
                from matplotlib import pyplot as plt

                plt.close(fig)
        except Exception:
            pass
    # generated plotter configurations: arrays of 1-3 dimensions (with gaps: NaN / inf entries), every chart type, dimensions given
    # to roles (x, line colour, subplot, sliced, summed) at random, with / without an x array
    for rep in range(3):
        nd = int(rng.integers(1, 4))
        ls = [str(q) for q in rng.permutation(["a", "b", "c"])[:nd]]
        Up = gen.universe(fd, {"a": 2, "b": 3, "c": 2}, rng=rng)
        pv = gen.values_one("dyadic", rng, gen.shape_of(Up, ls)).astype(float)
        if rng.random() < 0.7 and pv.size:
            pv.reshape(-1)[int(rng.integers(0, pv.size))] = [np.nan, np.inf, -np.inf][int(rng.integers(0, 3))]
        parr = fd.FlodymArray(dims=gen.dimset(fd, Up, ls), values=pv, name="quantity")
        roles = {"intra_line_dim": ls[0]}
        rest = ls[1:]
        kw = {}
        for l in rest:
            r_ = str(rng.choice(["linecolor_dim", "subplot_dim", "slice", "sum"]))
            if r_ in ("linecolor_dim", "subplot_dim") and r_ not in roles:
                roles[r_] = l if rng.random() < 0.5 else Up[l].name
            elif r_ == "slice":
                kw.setdefault("slice_dict", {})[l] = Up[l].items[0]
            else:
                kw.setdefault("summed_dims", []).append(l)
        if rng.random() < 0.4:
            kw["x_array"] = fd.FlodymArray(dims=gen.dimset(fd, Up, (ls[0],)), values=np.arange(1.0, 1.0 + len(Up[ls[0]].items)), name="x")
        kw["chart_type"] = str(rng.choice(["line", "scatter", "area", "area"]))
        for cls in (ap.PlotlyArrayPlotter, ap.PyplotArrayPlotter):
            try:
                fig = cls(array=parr, **roles, **kw).plot()
                if cls is ap.PyplotArrayPlotter:
                    from matplotlib import pyplot as plt

                    plt.close(fig)
            except Exception:
                pass
    # lifetime models given plain arrays of their own shape (also with an exact zero in the spread): whatever the model does with them
    # - construction, table builds, a stock computed on it - the user's arrays stay bit-identical
    tdim_p = fd.Dimension(letter="t", name="time", items=[2000, 2001, 2002, 2004])
    ds_p = fd.DimensionSet(dim_list=[tdim_p, U["a"]])
    for mname, pnames in (("NormalLifetime", ("mean", "std")), ("LogNormalLifetime", ("mean", "std")), ("FoldedNormalLifetime", ("mean", "std")), ("WeibullLifetime", ("weibull_shape", "weibull_scale")), ("FixedLifetime", ("mean",))):
        user = {}
        for pn in pnames:
            v_ = rng.uniform(1.0, 4.0, size=ds_p.shape)
            if pn == "std" and rng.random() < 0.7:
                v_.reshape(-1)[int(rng.integers(0, v_.size))] = 0.0
            user[pn] = np.asfortranarray(v_) if rng.random() < 0.3 else v_
        kept = {k_: v_.copy() for k_, v_ in user.items()}
        rec.event("inputs-unchanged", sig=f"lifetime-parameter-arrays|{mname}", cls=f"lifetime-model-from-plain-arrays|{mname}")
        try:
            with np.errstate(all="ignore"):
                how = int(rng.integers(0, 2))
                lm_p = getattr(fd, mname)(dims=ds_p, time_letter="t", **user) if how == 0 else getattr(fd, mname)(dims=ds_p, time_letter="t")
                if how == 1:
                    lm_p.set_prms(**user)
                lm_p.sf
                lm_p.pdf
                st_p = fd.InflowDrivenDSM(dims=ds_p, inflow=fd.StockArray(dims=ds_p, values=np.ones(ds_p.shape)), lifetime_model=lm_p, time_letter="t")
                st_p.compute()
        except Exception:
            pass
        for k_, v_ in user.items():
            if v_.tobytes() != kept[k_].tobytes() and not np.array_equal(v_, kept[k_], equal_nan=True) or (v_ != kept[k_]).any():
                rec.violation("inputs-unchanged", "lifetime-model-changed-a-parameter-array-it-was-given", {"model": mname, "parameter": k_, "n_changed": int((v_ != kept[k_]).sum()), "example_before_after": [float(kept[k_][v_ != kept[k_]][0]), float(v_[v_ != kept[k_]][0])]})
    # a stock built from the user's arrays whose dimensions are equal to, but not the same objects as, the stock's (deep copies, a
    # dimension under another name): the arrays stay the user's - their dimension sets, names and values - also when the set the stock was
    # declared with is edited in place afterwards
    import copy as _copy

    t_s = fd.Dimension(letter="t", name="time", items=[2000, 2001, 2002])
    a_s = fd.Dimension(letter="a", name=U["a"].name, items=list(U["a"].items))
    ds_s = fd.DimensionSet(dim_list=[t_s, a_s])
    a_other_name = fd.Dimension(letter="a", name="the same items under another name", items=list(U["a"].items))
    for variant in range(3):
        arr_dims = _copy.deepcopy(ds_s) if variant == 0 else fd.DimensionSet(dim_list=[fd.Dimension(letter="t", name="time", items=[2000, 2001, 2002]), a_other_name if variant == 1 else _copy.deepcopy(a_s)])
        given = {q_: fd.StockArray(dims=arr_dims.copy(), values=gen.values_one("dyadic", rng, (3, len(a_s.items))), name=f"my {q_}") for q_ in ("inflow", "outflow", "stock")}
        kept = {q_: Snap(v_) for q_, v_ in given.items()}
        rec.event("inputs-unchanged", sig=f"stock-from-user-arrays|{variant}", cls="stock built from arrays over equal but distinct dimensions")
        try:
            st_s = fd.SimpleFlowDrivenStock(dims=ds_s, time_letter="t", **{q_: v_ for q_, v_ in given.items() if q_ != "stock"})
            st_s.compute()
            ds_s.append(fd.Dimension(letter="z", name="added later", items=["z1", "z2"]), inplace=True)
            ds_s.drop("z", inplace=True)
            ds_s.replace("a", fd.Dimension(letter="q", name="swapped in", items=["q1"]), inplace=True)
            ds_s.replace("q", a_s, inplace=True)
        except Exception:
            continue
        for q_ in ("inflow", "outflow"):
            now = Snap(given[q_])
            if not now.ok or tuple(now.letters) != tuple(kept[q_].letters) or tuple(now.names) != tuple(kept[q_].names) or not np.array_equal(now.values, kept[q_].values):
                rec.violation("inputs-unchanged", "stock-changed-an-array-it-was-built-from", {"array": q_, "variant": ["deep copy of the set", "a dimension under another name", "separately built dimensions"][variant],
                                                                                               "names_before": list(kept[q_].names), "names_now": list(now.names), "letters_now": list(now.letters), "shape_consistent": bool(now.ok)})
    tdim = fd.Dimension(letter="t", name="time", items=[2000, 2001, 2003, 2006])
    ds = fd.DimensionSet(dim_list=[tdim, U["a"]])
    inflow = fd.StockArray(dims=ds, values=np.abs(gen.values_one("dyadic", rng, ds.shape)))
    mean = fd.FlodymArray(dims=gen.dimset(fd, U, ("a",)), values=np.array([3.0, 5.0]))
    try:
        lm = fd.LogNormalLifetime(dims=ds, time_letter="t", mean=mean, std=1.5)
        st = fd.InflowDrivenDSM(dims=ds, inflow=inflow, lifetime_model=lm, time_letter="t")
        st.compute()
        sd = fd.StockDrivenDSM(dims=ds, stock=st.stock, lifetime_model=lm, time_letter="t", solver="lapack")
        sd.compute()
        lm.set_prms(mean=mean, std=mean)
        # converting and stacking stocks builds new objects from existing arrays
        simple = fd.SimpleFlowDrivenStock(dims=ds, inflow=inflow, time_letter="t")
        simple.compute()
        simple.to_stock_type(fd.InflowDrivenDSM, lifetime_model=fd.NormalLifetime)
        sh = importlib.import_module("flodym.stock_helper")
        one_d = fd.DimensionSet(dim_list=[tdim])
        parts = [fd.SimpleFlowDrivenStock(dims=one_d, inflow=fd.StockArray(dims=one_d, values=np.arange(4.0) + k), time_letter="t") for k in range(2)]
        sh.stock_stack(parts, U["a"])
    except Exception:
        pass


def one(rec, hub, seed, tier, kind, i):
    rng = case_nprng(seed, f"c15.{kind}", 0, i)
    if kind == "frames":
        frames_io(rec, hub, rng)
        return
    if kind == "system":
        system_io(rec, hub, rng, i)
        return
    if kind == "noop":
        noop_requests(rec, hub, rng, i)
        return
    if kind == "program":
        letters = "abcd" if i % 3 else "abc"
        program.run_program(rec, hub, rng, 60 if tier == "quick" else 120, letters=letters, ill_rate=0.3, props=PROPS)
    else:
        fd = hub.fd
        letters = "abcd"
        U = gen.universe(fd, dict(zip(letters, gen.LENGTH_PATTERNS[4][i % 4])))
        sub = tuple(rng.permutation(list(letters))[: i % 5])
        drv.do_whole_array(hub, U, sub, rng)
        drv.do_errors(hub, U, sub, rng)


M15C = "result-independence"


def noop_requests(rec, hub, rng, i):
    """requests that leave nothing to compute - sums over dimensions with a single item or over no dimension at all, a cast to the
    dimensions the array already has (in its own or another order), a slice that selects every item, shares over single-item dimensions,
    arithmetic with a scalar array: the result is an array of its own all the same (judged by the independence probes in the wrapper)"""
    fd = hub.fd
    lens = [(1, 3, 2), (2, 1, 1), (1, 1, 1), (3, 2, 1), (1, 2, 1, 3)][i % 5]
    letters = "abcd"[: len(lens)]
    U = gen.universe(fd, dict(zip(letters, lens)), rng=rng)
    order = [str(q) for q in rng.permutation(list(letters))]
    x = fd.FlodymArray(dims=gen.dimset(fd, U, order), values=gen.values_one("dyadic", rng, gen.shape_of(U, order)) + 1.0)
    ones = [l for l in order if len(U[l].items) == 1]
    many = [l for l in order if len(U[l].items) > 1]
    calls = [lambda: x.sum_over(tuple(ones)), lambda: x.sum_over(()), lambda: x.sum_to(tuple(order)), lambda: x.sum_to(tuple(many)), lambda: x.sum_to(tuple(reversed(order))),
             lambda: x.cast_to(x.dims), lambda: x.cast_to(gen.dimset(fd, U, order[::-1])), lambda: x.get_shares_over(tuple(ones)) if ones else None, lambda: x[...], lambda: x[{}],
             lambda: x[{l: U[l].items[0] for l in ones}] if ones else None, lambda: x[{order[0]: fd.Dimension(letter=order[0].upper(), name="all of " + U[order[0]].name, items=list(U[order[0]].items))}],
             lambda: x + fd.FlodymArray(dims=fd.DimensionSet(dim_list=[]), values=np.array(0.0)), lambda: x * 1.0, lambda: x.apply(lambda v: v), lambda: x.copy(), lambda: x.cumsum(ones[0]) if ones else None,
             lambda: x.abs(), lambda: x.sign() if hasattr(x, "sign") else None]
    for c_ in calls:
        for spelled in (False, True):
            try:
                r = c_()
            except Exception:
                continue
            if r is None:
                break
    for l in ones[:1]:
        for spell in (l, U[l].name):
            try:
                x.sum_over(spell), x.sum_over((spell,)), x.sum_over([spell])
            except Exception:
                pass
    rec.event("noop-requests", sig=f"{lens}|{order}", cls=f"noop|{len(ones)} single-item dims of {len(order)}")
    # a key used on an array, then a copy of the array taken and the SAME key used on the copy first thing (read, then write): the copy
    # is written, the original is not (and the other way round)
    import copy as _copy

    if many:
        l_k = many[0]
        it_k = U[l_k].items[int(rng.integers(0, len(U[l_k].items)))]
        for key in (it_k, (it_k,), {l_k: it_k}, {U[l_k].name: it_k}):
            for how, mk in (("copy()", lambda a_: a_.copy()), ("copy.deepcopy", _copy.deepcopy), ("model_copy(deep=True)", lambda a_: a_.model_copy(deep=True))):
                a_ = fd.FlodymArray(dims=gen.dimset(fd, U, order), values=gen.values_one("dyadic", rng, gen.shape_of(U, order)) + 1.0)
                try:
                    a_[key]
                    if rng.random() < 0.5:
                        a_[key] = 2.5
                    b_ = mk(a_)
                    before_a = np.array(a_.values, copy=True)
                    b_[key]
                    b_[key] = -99.0
                    rec.event("noop-requests", sig=f"copy-then-same-key|{how}|{type(key).__name__}", cls=f"same key on a fresh copy|{how}|{type(key).__name__} key")
                    if not np.array_equal(before_a, a_.values):
                        rec.violation(M15C, "write-through-a-key-into-a-copy-changed-the-original", {"how": how, "key": repr(key)[:80], "dims": order}, prop="C15")
                    before_b = np.array(b_.values, copy=True)
                    a_[key] = 77.0
                    if not np.array_equal(before_b, b_.values):
                        rec.violation(M15C, "write-through-a-key-into-the-original-changed-its-copy", {"how": how, "key": repr(key)[:80], "dims": order}, prop="C15")
                except Exception:
                    continue


def run(rec, hub, tier, seed, shard, nshards, budget):
    inv.register(hub, PROPS)
    rec.require(program.MP15, 100)
    n_prog = 220 if tier == "quick" else 1500
    work = interleave([("program", i) for i in range(n_prog)], [("whole", i) for i in range(40 if tier == "quick" else 200)], [("frames", i) for i in range(150 if tier == "quick" else 1000)], [("system", i) for i in range(25 if tier == "quick" else 150)], [("noop", i) for i in range(30 if tier == "quick" else 200)])
    for w, (kind, i) in enumerate(work):
        if not budget.ok():
            break
        idx = i * nshards + shard
        rec.set_case(driver=f"c15.{kind}", seed=seed, tier=tier, shard=shard, nshards=nshards, idx=idx)
        one(rec, hub, seed, tier, kind, idx)
    rec.info("programs_run", n_prog)


def replay(rec, hub, case):
    inv.register(hub, PROPS)
    rec.set_case(**case)
    one(rec, hub, case["seed"], case.get("tier", "quick"), case["driver"].split(".")[1], case["idx"])
