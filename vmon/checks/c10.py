"""C10 — inflow-driven and stock-driven models are inverse; both solvers agree."""

from __future__ import annotations

from ..core import case_nprng
from ..drivers import dsm

LEVEL = "exploration"
BUDGET = {"quick": 50, "thorough": 330}
SHARDS = {"quick": 1, "thorough": 16}
RULE = (
    "relational monitor on shadow runs of the real code: inflow-driven -> stock-driven (manual and lapack, with a fresh and with the same "
    "lifetime-model object) must return the original inflow, outflow and both cohort tables; stock-driven (any prescribed stock, also one "
    "implying negative inflow) -> inflow-driven must reproduce the stock; manual == lapack on all five result arrays.  Normwise tolerance "
    "1e3*n*eps*kappa with kappa the condition number of the survival matrix (cases with kappa*n*eps > 1e-7 skipped and counted).  Workload: "
    "5 lifetime models x parameter shapes x grids x 0-2 extra dims restricted to first-interval survival >= 0.05.  Configuration signature = "
    "(comparison, model, grid class, n_t, extra shape, inflow_at, n_pts)"
)


def run(rec, hub, tier, seed, shard, nshards, budget):
    from ..oracles import bystand

    bystand.register(hub, "C10")
    rec.require(dsm.M10, 50)
    n = 300 if tier == "quick" else 2500
    if shard == 0:
        for g in range(2 if tier == "quick" else 6):
            rec.set_case(driver="c10.wide", seed=seed, tier=tier, shard=shard, nshards=nshards, idx=g)
            dsm.c10_wide_case(rec, hub, case_nprng(seed, "c10.wide", 0, g))
    for k in range(n):
        if not budget.ok():
            break
        i = k * nshards + shard
        rec.set_case(driver="c10.case", seed=seed, tier=tier, shard=shard, nshards=nshards, idx=i)
        dsm.c10_case(rec, hub, case_nprng(seed, "c10.case", 0, i), tier)


def replay(rec, hub, case):
    from ..oracles import bystand

    bystand.register(hub, "C10")
    rec.set_case(**case)
    if case["driver"] == "c10.wide":
        dsm.c10_wide_case(rec, hub, case_nprng(case["seed"], "c10.wide", 0, case["idx"]))
        return
    dsm.c10_case(rec, hub, case_nprng(case["seed"], "c10.case", 0, case["idx"]), case.get("tier", "quick"))
