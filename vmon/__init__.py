"""vmon — runtime monitors for the 20 flodym properties (see /verif/DESIGN.md)."""
