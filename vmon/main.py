"""Entry point: python -m vmon.main <Cxx> quick|thorough [--shard i/n --out f] | <Cxx> --replay f | --setup"""

from __future__ import annotations

import importlib
import json
import os
import sys
import time
import warnings

from . import core
from .core import Budget, Recorder, finish, run_sharded

PROPS = [f"C{i:02d}" for i in range(1, 21)]


def load_check(prop):
    return importlib.import_module(f"vmon.checks.{prop.lower()}")


def setup():
    os.makedirs(core.EVIDENCE_DIR, exist_ok=True)
    os.makedirs(core.REPLAY_DIR, exist_ok=True)
    from .attach import import_flodym

    fd = import_flodym()
    import numpy, pandas, scipy  # noqa

    print(f"setup ok: flodym from {fd.__file__}; numpy {numpy.__version__}, pandas {pandas.__version__}, scipy {scipy.__version__}")
    return 0


def run_single(prop, tier, seed, shard, nshards, out=None, replay_case=None):
    warnings.simplefilter("ignore")
    import logging

    logging.disable(logging.NOTSET)
    logging.getLogger().addHandler(logging.NullHandler())  # keep the library's warnings off stderr (C02 captures them itself)
    mod = load_check(prop)
    rec = Recorder(prop, tier, seed, shard, nshards)
    rec.level = getattr(mod, "LEVEL", "exploration")
    rec.rule = getattr(mod, "RULE", "")
    from .attach import Hub, install

    hub = Hub(rec)
    install(hub)
    secs = mod.BUDGET[tier]
    budget = Budget(secs)
    from .trace import Reach, reach_report

    reach = Reach()
    reach.start()
    try:
        if replay_case is not None and str(replay_case.get("driver", "")).startswith("piggy."):
            # a violation seen while the repository's tests / howtos / examples ran under the monitors:
            # arm the check's monitors (run with an exhausted budget registers them without generating work), then re-run that workload
            from . import piggy

            mod.run(rec, hub, "quick", seed, 0, 1, Budget(-1))
            rec.events.clear()
            what = replay_case["driver"].split(".")[1]
            if what == "tests":
                piggy.run_repo_tests(rec, hub)
            else:
                piggy.run_scripts(rec, hub, what, only=replay_case.get("script"))
        elif replay_case is not None:
            mod.replay(rec, hub, replay_case)
        else:
            mod.run(rec, hub, tier, seed, shard, nshards, budget)
            if tier == "thorough" and getattr(mod, "PIGGY", False) and shard < 3:
                # piggy-back workloads: repo tests (shard 0), howtos (1), examples (2) under the same monitors
                from . import piggy

                piggy.run_all(rec, hub, shard, 3)
    except Exception:
        import traceback

        rec.inconclusive(f"check crashed: {traceback.format_exc()[-1500:]}")
    reach.stop()
    if replay_case is not None:
        # a replay judges one case: the per-run minimum event counts do not apply, but observing nothing is inconclusive
        rec.required.clear()
        if not rec.events:
            rec.inconclusive("the replayed case produced no monitor event")
    try:
        rec.info("flodym_functions_reached", reach_report(reach, prop))
    except Exception:
        pass
    if budget.exhausted:
        rec.notes.append(f"shard {shard}: time budget of {secs}s reached, remaining cases skipped")
    if out:
        with open(out, "w") as f:
            json.dump(rec.dump(), f)
        return 0
    return finish(rec)


def main(argv):
    if argv and argv[0] == "--setup":
        return setup()
    if not argv or argv[0] not in PROPS:
        print("usage: vcheck <C01..C20> quick|thorough | <Cxx> --replay <file> | --setup")
        return 64
    prop = argv[0]
    seed = int(os.environ.get("VERIF_SEED", "0") or 0)
    rest = argv[1:]
    if rest and rest[0] == "--replay":
        with open(rest[1]) as f:
            rp = json.load(f)
        case = rp["witnesses"][0]["case"] if rp.get("witnesses") else None
        if not case:
            print("replay file holds no case")
            return 2
        seed = int(case.get("seed", rp.get("seed", 0)))
        return run_single(prop, case.get("tier", rp.get("tier", "quick")), seed, int(case.get("shard", 0)), int(case.get("nshards", 1)), replay_case=case)
    tier = rest[0] if rest else os.environ.get("VERIF_TIER", "quick")
    if tier not in ("quick", "thorough"):
        print("tier must be quick or thorough")
        return 64
    shard, nshards, out = 0, 1, None
    if "--shard" in rest:
        a, b = rest[rest.index("--shard") + 1].split("/")
        shard, nshards = int(a), int(b)
    if "--out" in rest:
        out = rest[rest.index("--out") + 1]
    if out is not None:
        return run_single(prop, tier, seed, shard, nshards, out=out)
    mod = load_check(prop)
    n = getattr(mod, "SHARDS", {"quick": 1, "thorough": 16})[tier]
    if n <= 1:
        return run_single(prop, tier, seed, 0, 1)
    t0 = time.monotonic()
    rec = run_sharded(prop, tier, seed, n, timeout_s=mod.BUDGET[tier] * 3 + 300)
    rec.level = getattr(mod, "LEVEL", "exploration")
    rec.rule = rec.rule or getattr(mod, "RULE", "")
    return finish(rec, wall_s=time.monotonic() - t0)


if __name__ == "__main__":
    sys.exit(main(sys.argv[1:]))
