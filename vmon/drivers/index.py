"""index driver: reads and writes with every selector-kind assignment, key spelling, error class; histories."""

from __future__ import annotations

import itertools

import numpy as np
import pandas as pd

from .. import gen

KEEP_ALIVE: list = []  # iterators handed out as keys (kept alive so that their id stays unique while registered)
KINDS_READ = ("-", "1", "S")
KINDS_WRITE = ("-", "1", "S", "L")


def subset_dim(fd, U, l, rng, order):
    its = list(U[l].items)
    k = int(rng.integers(1, len(its) + 1))
    pick = sorted(rng.choice(len(its), size=k, replace=False).tolist())
    if order == "rev":
        pick = pick[::-1]
    elif order == "rot" and len(pick) > 1:
        pick = pick[1:] + pick[:1]
    elif order == "rand":
        pick = rng.permutation(pick).tolist()
    if rng.random() < 0.3:
        return U[l].model_copy(update={"letter": l.upper(), "name": "sub " + U[l].name, "items": [its[i] for i in pick]})
    return fd.Dimension(letter=l.upper(), name="sub " + U[l].name, items=[its[i] for i in pick])


def build_key(fd, U, letters, assign, rng, order, spelling):
    """assign: tuple of kinds per dimension.  Returns key dict (or bare/tuple form when spelling asks for it and it is possible)."""
    key = {}
    for l, k in zip(letters, assign):
        if k == "-":
            continue
        its = list(U[l].items)
        if k == "1":
            v = gen.np_spelled(its[int(rng.integers(0, len(its)))], rng)
        elif k == "S":
            v = subset_dim(fd, U, l, rng, order)
        else:
            n = int(rng.integers(1, len(its) + 1))
            pick = rng.choice(len(its), size=n, replace=False).tolist()
            if order == "id":
                pick = sorted(pick)
            v = [gen.np_spelled(its[i], rng, 0.15) for i in pick]
            r_ = rng.random()
            if r_ < 0.3:
                v = tuple(v)
            elif r_ < 0.5 and spelling not in ("bare", "tuple"):
                # the same selection as another kind of sequence: numpy array, pandas Index / Series, range (consecutive integers)
                plain = [its[i] for i in pick]
                zoo = [np.array(plain), pd.Index(plain), pd.Series(plain, index=[f"row{j}" for j in range(len(plain))])]
                if all(isinstance(q, int) and not isinstance(q, bool) for q in plain) and plain == list(range(plain[0], plain[0] + len(plain))):
                    zoo.append(range(plain[0], plain[0] + len(plain)))
                if all(isinstance(q, str) for q in plain) or all(isinstance(q, int) and not isinstance(q, bool) for q in plain) or all(isinstance(q, float) for q in plain):
                    v = zoo[int(rng.integers(0, len(zoo)))]
        if spelling == "letter":
            kk = l if rng.random() < 0.85 else np.str_(l)
        elif spelling == "name":
            kk = U[l].name
        else:
            kk = l if rng.random() < 0.5 else U[l].name
        key[kk] = v
    if spelling in ("bare", "tuple") and all(k in "-1L" for k in assign):
        parts = []
        for v in key.values():
            if isinstance(v, (list, tuple)):
                parts.extend(v)
            else:
                parts.append(v)
        if len(parts) == 0:
            return Ellipsis
        if len(parts) == 1 and spelling == "bare":
            return parts[0]
        rng.shuffle(parts)
        return tuple(parts)
    if not key and rng.random() < 0.5:
        return Ellipsis
    return key


def is_listlike(v):
    return isinstance(v, (list, tuple, np.ndarray, pd.Index, pd.Series, range))


def region_dims(fd, U, letters, key_dict):
    """Dimension objects of the region addressed by a dict key (None if the key is not a dict)."""
    out = []
    norm = {}
    for k, v in key_dict.items():
        l = k if k in letters else [x for x in letters if U[x].name == k][0]
        norm[l] = v
    for l in letters:
        v = norm.get(l)
        if v is None:
            out.append(U[l])
        elif isinstance(v, fd.Dimension):
            out.append(v)
        elif is_listlike(v):
            out.append(("L", l, [q.item() if isinstance(q, np.generic) and not isinstance(q, np.str_) else (str(q) if isinstance(q, np.str_) else q) for q in v]))
        # single: dropped
    return out


def do_reads(hub, U, letters, assign, rng, regime):
    fd = hub.fd
    x = gen.Fresh(hub, fd.FlodymArray(dims=gen.dimset(fd, U, letters), values=gen.values_one(regime, rng, gen.shape_of(U, letters), layout=True)))
    for order in ("id", "rev", "rot", "rand"):
        if "S" not in assign and order != "id":
            continue
        for spelling in ("letter", "name", "mixed", "bare", "tuple"):
            if spelling in ("bare", "tuple") and "S" in assign:
                continue
            key = build_key(fd, U, letters, assign, rng, order, spelling)
            try:
                r = x[key]
            except Exception:
                continue
            # the result is an array in its own right: address it by the labels of ITS dimensions (subset dimensions included)
            try:
                rl = list(r.dims.letters)
                if rl and rng.random() < 0.5:
                    d0 = r.dims[rl[int(rng.integers(0, len(rl)))]]
                    it = d0.items[int(rng.integers(0, len(d0.items)))]
                    for k2 in ({d0.letter: it}, {d0.name: it}, it):
                        try:
                            r[k2]
                        except Exception:
                            pass
                    r2 = r.copy()
                    r2[{d0.letter: it}] = 3.25
                    r.split(d0.letter)
            except Exception:
                pass


def do_writes(hub, U, all_letters, letters, assign, rng, regime):
    fd = hub.fd
    shape = gen.shape_of(U, letters)
    for order in ("id", "rand"):
        if not any(k in "SL" for k in assign) and order != "id":
            continue
        for spelling in ("letter", "name", "tuple"):
            if spelling == "tuple" and "S" in assign:
                continue
            key = build_key(fd, U, letters, assign, rng, order, spelling)
            kd = key if isinstance(key, dict) else None
            # region description from the assignment (works for all spellings when key is a dict)
            for rhs_kind in ("number", "ndarray", "array", "array+extra", "array-permuted", "array-lacking", "array-over-parent"):
                t = fd.FlodymArray(dims=gen.dimset(fd, U, letters), values=gen.values_one("dyadic", rng, shape))
                if rhs_kind == "number":
                    rhs = float(rng.integers(-50, 50)) / 4 if rng.random() < 0.7 else int(rng.integers(-5, 6))
                else:
                    if kd is None and key is not Ellipsis:
                        continue
                    rd = region_dims(fd, U, letters, kd or {})
                    if rhs_kind == "ndarray":
                        rshape = tuple(len(d.items) if not isinstance(d, tuple) else len(d[2]) for d in rd)
                        rhs = gen.values_one("dyadic", rng, rshape)
                    else:
                        if any(isinstance(d, tuple) for d in rd):
                            # list selector: array sources only without that dimension (=> must raise) or skipped by the oracle
                            rd2 = [d for d in rd if not isinstance(d, tuple)]
                            if rhs_kind != "array-lacking":
                                continue
                            dims = rd2
                        else:
                            dims = list(rd)
                            if rhs_kind == "array-lacking":
                                if not dims:
                                    continue
                                dims.pop(int(rng.integers(0, len(dims))))
                            if rhs_kind == "array-over-parent":
                                # where the key puts a subset dimension (its own letter) in place of a dimension, the source comes
                                # over the PARENT dimension instead: it lacks the region's dimension (and has a surplus one)
                                subs = [j_ for j_, d_ in enumerate(dims) if d_.letter not in letters]
                                if not subs:
                                    continue
                                j_ = subs[int(rng.integers(0, len(subs)))]
                                parent = [U[l_] for l_ in letters if set(dims[j_].items) <= set(U[l_].items) and U[l_].letter not in [d_.letter for d_ in dims]]
                                if not parent:
                                    continue
                                dims[j_] = parent[0]
                        if rhs_kind == "array+extra":
                            extra = [U[l] for l in all_letters if l not in [d.letter for d in dims] and l.upper() not in [d.letter for d in dims]]
                            # dims selected by a single item are legitimate surplus dims of the source
                            if extra:
                                k = int(rng.integers(1, min(2, len(extra)) + 1))
                                dims = dims + [extra[i] for i in rng.choice(len(extra), size=k, replace=False)]
                        if rhs_kind in ("array-permuted", "array+extra") and len(dims) > 1:
                            dims = [dims[i] for i in rng.permutation(len(dims))]
                        ds = fd.DimensionSet(dim_list=dims)
                        rhs = fd.FlodymArray(dims=ds, values=gen.values_one(regime, rng, ds.shape))
                try:
                    t[key] = rhs
                except Exception:
                    pass


def one_shot(lst, rng):
    """a generator / iterator over the items (usable once); registered so that the oracle knows what it held"""
    from ..oracles.index import ITER_KEYS

    lst = list(lst)
    v = iter(lst) if rng.random() < 0.5 else (q for q in lst)
    while len(KEEP_ALIVE) >= 40:
        ITER_KEYS.pop(id(KEEP_ALIVE.pop(0)), None)
    ITER_KEYS[id(v)] = lst
    KEEP_ALIVE.append(v)
    return v


def do_iterator_keys(hub, U, letters, rng):
    """several items of a dimension handed over as a one-shot iterable (every key object is used exactly once)"""
    fd = hub.fd
    if not letters:
        return
    shape = gen.shape_of(U, letters)
    for _ in range(4):
        l = letters[int(rng.integers(0, len(letters)))]
        its = list(U[l].items)
        pick = [its[j] for j in rng.permutation(len(its))[: int(rng.integers(1, len(its) + 1))]]
        t = fd.FlodymArray(dims=gen.dimset(fd, U, letters), values=gen.values_one("dyadic", rng, shape))
        key = {l: one_shot(pick, rng)}
        if len(letters) > 1 and rng.random() < 0.5:
            l2 = [q for q in letters if q != l][0]
            key[l2] = U[l2].items[0]
        try:
            t[key] = float(rng.integers(-20, 20)) / 4
        except Exception:
            pass
        x = fd.FlodymArray(dims=gen.dimset(fd, U, letters), values=gen.values_one("dyadic", rng, shape))
        try:
            x[{l: one_shot(pick, rng)}]  # several items on a read: must raise
        except Exception:
            pass


def do_big_reads_writes(rec, hub, rng):
    """slice reads and writes on arrays of 10^4 - 10^5 entries, judged by np.take / explicit index arithmetic"""
    fd = hub.fd
    M = "large-arrays"
    U = gen.big_universe(fd, rng)
    if rng.random() < 0.6:  # one LONG dimension (hundreds of items) whose items are not stored in ascending order
        n_long = int(rng.integers(150, 700))
        if rng.random() < 0.5:
            U["b"] = fd.Dimension(letter="b", name=gen.NAMES["b"], items=[int(q) for q in 1000 + rng.permutation(n_long)], dtype=int)
        else:
            U["a"] = fd.Dimension(letter="a", name=gen.NAMES["a"], items=[f"prod{int(q):04d}" for q in rng.permutation(n_long)], dtype=str)
        U["c"] = fd.Dimension(letter="c", name=gen.NAMES["c"], items=[f"c{i}" for i in range(int(rng.integers(2, 6)))])
    la = tuple(str(q) for q in rng.permutation(list("abcd"))[: int(rng.integers(2, 5))])
    v = gen.relayout(gen.big_values(rng, gen.shape_of(U, la), "dyadic"), rng)
    x = fd.FlodymArray(dims=gen.dimset(fd, U, la), values=v.copy(order="K"))
    # one single item, one subset (random order) on two different dimensions
    l1, l2 = la[0], la[-1]
    it1 = U[l1].items[int(rng.integers(0, len(U[l1].items)))]
    pos2 = rng.permutation(len(U[l2].items))[: max(1, int(len(U[l2].items) * rng.choice([0.33, 0.6, 0.95, 1.0])))].tolist()
    if rng.random() < 0.3:
        pos2 = sorted(pos2)
    sub_ = fd.Dimension(letter=l2.upper(), name="sub " + U[l2].name, items=[U[l2].items[p_] for p_ in pos2])
    key = {l1: it1, U[l2].name: sub_}
    ref = np.take(np.take(v, U[l1].items.index(it1), axis=0), pos2, axis=len(la) - 2)
    rec.event(M, sig=f"big-read|{la}|{v.shape}", cls="big|getitem", sample={"dims": list(la), "shape": list(v.shape)})
    try:
        r = x[key]
        exp_letters = [l for l in la[1:-1]] + [l2.upper()]
        if list(r.dims.letters) != exp_letters or not np.array_equal(r.values, ref):
            rec.violation(M, "big-read:wrong-entries-or-dims", {"dims": list(la), "shape": list(v.shape), "got_dims": list(r.dims.letters), "expected_dims": exp_letters}, prop="C06")
    except Exception as e:
        rec.violation(M, "big-read:raised", {"exc": repr(e)[:300], "dims": list(la)}, prop="C06")
    # write a number into that region: exactly those entries change
    t = fd.FlodymArray(dims=gen.dimset(fd, U, la), values=v.copy())
    rec.event(M, sig=f"big-write|{la}|{v.shape}", cls="big|setitem")
    try:
        t[key] = -7.5
        exp = v.copy()
        idx = [slice(None)] * len(la)
        idx[0] = U[l1].items.index(it1)
        sl_ = exp[tuple(idx)]
        sl_[(slice(None),) * (len(la) - 2) + (pos2,)] = -7.5
        if not np.array_equal(t.values, exp):
            rec.violation(M, "big-write:wrong-entries-changed", {"dims": list(la), "shape": list(v.shape), "n_diff": int((t.values != exp).sum())}, prop="C06")
    except Exception as e:
        rec.violation(M, "big-write:raised", {"exc": repr(e)[:300], "dims": list(la)}, prop="C06")


def do_float32_targets(hub, U, letters, rng):
    """single-precision targets receive double-precision sources whose sums cancel: the sum must be formed before rounding"""
    fd = hub.fd
    if not letters:
        return
    extra = [l for l in "abcde" if l not in letters and l in U][:1]
    if not extra:
        return
    shape = gen.shape_of(U, letters)
    for _ in range(3):
        t = fd.FlodymArray(dims=gen.dimset(fd, U, letters), values=np.zeros(shape, dtype=np.float32))
        sl = tuple(letters) + tuple(extra)
        ss = gen.shape_of(U, sl)
        src = rng.integers(1, 50, size=ss).astype(float)
        big = 2.0 ** rng.integers(26, 40)
        n_e = ss[-1]
        if n_e >= 2:
            src[..., 0] += big
            src[..., 1] -= big  # cancels exactly in double precision, not in single precision
        order = [sl[j] for j in rng.permutation(len(sl))]
        s = fd.FlodymArray(dims=gen.dimset(fd, U, sl), values=src)
        s2 = s.sum_to(tuple(order)) if rng.random() < 0.5 else s
        try:
            t[...] = s2
        except Exception:
            pass


def do_whole_array(hub, U, letters, rng):
    """t[...] = ndarray / set_values(ndarray) of the right shape, transposed, broadcastable, extra axis; number; array."""
    fd = hub.fd
    shape = gen.shape_of(U, letters)
    cands = [shape, shape[::-1], shape[1:], shape + (1,), (1,) + shape, tuple(1 for _ in shape), shape[:-1] + (1,) if shape else (1,), ()]
    for sh in cands:
        for via in ("setitem", "set_values", "init"):
            vals = gen.values_one("dyadic", rng, sh)
            if via == "init":
                try:
                    fd.FlodymArray(dims=gen.dimset(fd, U, letters), values=vals)
                except Exception:
                    pass
                continue
            t = fd.FlodymArray(dims=gen.dimset(fd, U, letters), values=gen.values_one("dyadic", rng, shape))
            try:
                if via == "setitem":
                    t[...] = vals
                else:
                    t.set_values(vals)
            except Exception:
                pass
    # sources the user cannot (or must not) see change: a read-only view of the user's own buffer; a source of another dtype than the
    # target currently holds (float64 into whole-number or single-precision targets, whole numbers into a float target)
    if shape:
        base = gen.values_one("dyadic", rng, shape)
        ro = base.view()
        ro.flags.writeable = False
        for tgt_dtype, src in ((float, ro), (np.int64, base + 0.25), (np.float32, base + 0.125), (float, np.round(base).astype(np.int32)), (float, np.asfortranarray(base))):
            for via in ("setitem", "set_values"):
                tt = fd.FlodymArray(dims=gen.dimset(fd, U, letters), values=np.zeros(shape, dtype=tgt_dtype))
                try:
                    if via == "setitem":
                        tt[...] = src
                        tt[...] = 1.0  # the target stays an ordinary, writable array of its own
                    else:
                        tt.set_values(src)  # (set_values may adopt the array it is given: no promise of a copy there)
                except Exception:
                    pass
    t = fd.FlodymArray(dims=gen.dimset(fd, U, letters), values=gen.values_one("dyadic", rng, shape))
    for f in (lambda: t.set_values(3.5), lambda: t.set_values(fd.FlodymArray(dims=gen.dimset(fd, U, letters))),
              lambda: t.__setitem__(Ellipsis, 2), lambda: t.__setitem__(Ellipsis, [1, 2, 3])):
        try:
            f()
        except Exception:
            pass


def do_close_labels_and_copies(hub, U, letters, rng):
    """(a) float labels that lie closer together than any sensible tolerance (trace concentrations, large neighbouring numbers):
    every label addresses its own entries; (b) a key used on an array and then, spelled the same, on a copy of it that holds other
    values: each read / write concerns the array it is made on"""
    fd = hub.fd
    import copy as _copy

    conc = fd.Dimension(letter="k", name="concentration", items=[1e-9, 1e-8, 1.5e-8, 2e-9])
    big = fd.Dimension(letter="n", name="number", items=[1000000.0, 1000001.0, 999999.5])
    x = fd.FlodymArray(dims=fd.DimensionSet(dim_list=[conc, big]), values=gen.values_one("dyadic", rng, (4, 3)))
    sub_c = fd.Dimension(letter="K", name="some concentrations", items=[1.5e-8, 1e-9])
    for k in ({"k": 1e-8}, {"k": 1e-9, "n": 1000001.0}, {"number": 999999.5}, {"k": sub_c}, {"n": [1000001.0, 1000000.0]}, 2e-9, (1.5e-8, 1000000.0)):
        try:
            x[k]
        except Exception:
            pass
        t = x.copy()
        try:
            t[k] = -2.5
        except Exception:
            pass
    for l_ in ("k", "n"):
        try:
            x.split(l_)
        except Exception:
            pass
    if letters:
        y0 = fd.FlodymArray(dims=gen.dimset(fd, U, letters), values=gen.values_one("dyadic", rng, gen.shape_of(U, letters)))
        it0 = U[letters[0]].items[0]
        keys = [it0, (it0,), {letters[0]: it0}] + ([(it0, U[letters[-1]].items[-1])] if len(letters) > 1 else [])
        for k in keys:
            try:
                y0[k]
            except Exception:
                pass
        for how in (lambda a: a.copy(), _copy.copy, lambda a: a.model_copy(), _copy.deepcopy):
            try:
                y1 = how(y0)
                y1.values = gen.values_one("dyadic", rng, gen.shape_of(U, letters)) + 4096.0 if how is _copy.copy or y1.values is y0.values else y1.values
                if y1.values is not y0.values:
                    y1.values[...] = gen.values_one("dyadic", rng, gen.shape_of(U, letters)) + 4096.0
            except Exception:
                continue
            for k in keys:
                try:
                    y1[k]
                except Exception:
                    pass
                try:
                    y1[k] = 0.5
                except Exception:
                    pass
            for k in keys:
                try:
                    y0[k]
                except Exception:
                    pass


def do_key_object_reuse(hub, U, letters, rng):
    """one key OBJECT (dict by name / by letter / mixed, tuple, list inside a dict) is used on several arrays in turn - among them an
    array in which the same dimension NAMES stand under other LETTERS - and every use is compared with the use of an equal key built
    afresh on the same array: a key addresses the same entries however often and wherever the object was used before"""
    fd, rec = hub.fd, hub.rec
    import copy as _copy

    M = "key-object-reuse"
    if len(letters) < 2:
        return
    rot = list(letters[1:]) + [letters[0]]
    try:
        dims_x = gen.dimset(fd, U, letters)
        dims_y = fd.DimensionSet(dim_list=[fd.Dimension(letter=rot[i], name=U[l].name, items=list(U[l].items), dtype=U[l].dtype) for i, l in enumerate(letters)])
    except Exception:
        return
    shp = gen.shape_of(U, letters)
    x = fd.FlodymArray(dims=dims_x, values=gen.values_one("dyadic", rng, shp))
    y = fd.FlodymArray(dims=dims_y, values=gen.values_one("dyadic", rng, shp) + 512.0)
    l0, l1 = letters[0], letters[-1]
    i0 = U[l0].items[int(rng.integers(0, len(U[l0].items)))]
    i1 = U[l1].items[int(rng.integers(0, len(U[l1].items)))]
    some1 = [U[l1].items[int(j)] for j in rng.permutation(len(U[l1].items))[: max(1, len(U[l1].items) - 1)]]
    keys = [{U[l0].name: i0}, {U[l0].name: i0, U[l1].name: i1}, {l0: i0, U[l1].name: some1}, {U[l1].name: some1}, {l0: i0}, {U[l1].name: i1, l0: i0}]
    # z: the same letters and names as x, every dimension listing its items in ANOTHER ORDER (a subset Dimension used as key on x and
    # then on z addresses the same LABELS, which stand at other positions there)
    z = None
    try:
        dims_z = fd.DimensionSet(dim_list=[fd.Dimension(letter=l, name=U[l].name, items=list(U[l].items)[1:] + [U[l].items[0]], dtype=U[l].dtype) for l in letters])
        z = fd.FlodymArray(dims=dims_z, values=gen.values_one("dyadic", rng, shp) + 2048.0)
        for l_s in {l0, l1}:
            if len(U[l_s].items) >= 2:
                keys.append({l_s: subset_dim(fd, U, l_s, rng, "rand")})
        keys.append({l1: list(some1)})
    except Exception:
        z = None

    def outcome(arr, key, write):
        try:
            if write:
                t = arr.copy()
                t[key] = 7.5
                return ("ok", tuple(t.dims.letters), np.array(t.values, dtype=float))
            r = arr[key]
            return ("ok", tuple(r.dims.letters), np.array(r.values, dtype=float))
        except Exception as e:
            return ("raised", type(e).__name__, None)

    for k in keys:
        fresh = _copy.deepcopy(k)
        order = [x, y, x] if rng.random() < 0.5 else [y, x, y]
        if z is not None and any(isinstance(v_, (fd.Dimension, list)) for v_ in k.values()):
            order = [x, z, x] if rng.random() < 0.5 else [z, x, z]
        for n_use, arr in enumerate(order):
            for write in (False, True):
                with hub.pause():
                    want = outcome(arr, _copy.deepcopy(fresh), write)
                got = outcome(arr, k, write)
                rec.event(M, sig=f"{sorted(map(str, fresh))}|use{n_use}|{'w' if write else 'r'}|{len(letters)}", cls=f"{'write' if write else 'read'}|use number {n_use + 1} of the key object|{'refused' if want[0] == 'raised' else 'answered'}")
                same = got[0] == want[0] and (got[0] == "raised" or (got[1] == want[1] and got[2].shape == want[2].shape and np.array_equal(got[2], want[2], equal_nan=True)))
                if not same:
                    rec.violation(M, f"a-key-object-used-before-addresses-other-entries-than-an-equal-fresh-key:{'write' if write else 'read'}",
                                  dict(key_as_built=repr(fresh)[:200], key_object_now=repr(k)[:200], use_number=n_use + 1, with_used_object=repr(got[:2]), with_fresh_key=repr(want[:2]),
                                       array_dims=[(d.letter, d.name) for d in arr.dims]))
                    return


def do_errors(hub, U, letters, rng):
    fd = hub.fd
    x = fd.FlodymArray(dims=gen.dimset(fd, U, letters), values=gen.values_one("dyadic", rng, gen.shape_of(U, letters)))
    if not letters:
        return
    l0 = letters[0]
    its0 = list(U[l0].items)
    foreign = fd.Dimension(letter="Z", name="foreign", items=its0[:1] + ["zz9"])
    keys = [
        "no-such-item", 0, 1, -1, 99, 2.0,
        {l0: "no-such-item"}, {l0: 0}, {U[l0].name: 12345},
        slice(None), slice(0, 1), {l0: slice(None)}, (slice(None),) * len(letters),
        {l0: foreign},
        {l0: its0[:2]} if len(its0) > 1 else {l0: its0},  # several items on read
        tuple(its0[:2]) if len(its0) > 1 else (its0[0],),
        {l0: ["no-such-item"]},
        (its0[0], "no-such-item"),
        {l0: its0[:1]}, {l0: tuple(its0[-1:])}, {U[l0].name: np.array(its0[:1])},  # a sequence holding ONE item is still a sequence
    ]
    for k in keys:
        try:
            x[k]
        except Exception:
            pass
        t = x.copy()
        try:
            t[k] = 1.0
        except Exception:
            pass
    # integers just outside an integer dimension's items (must be unknown labels, never positions or offsets)
    for l in letters:
        its = list(U[l].items)
        if all(isinstance(i, int) and not isinstance(i, bool) for i in its):
            for bad in (min(its) - 1, max(its) + 1, min(its) - len(its), 0, len(its) - 1):
                if bad in its:
                    continue
                for k in ({l: bad}, {U[l].name: bad}, bad, {l: [its[0], bad]}):
                    try:
                        x[k]
                    except Exception:
                        pass
                    t = x.copy()
                    try:
                        t[k] = 1.0
                    except Exception:
                        pass
    # keys of a NEIGHBOURING type that a conversion to the dimension's declared type would turn into an item:
    # fractional years, years as text, numbers for numeric-looking text labels (all unknown labels: must be refused)
    yr = fd.Dimension(letter="t", name="Time", items=[int(q) for q in rng.permutation(np.arange(2000, 2000 + int(rng.integers(3, 7))))], dtype=int)
    tx = fd.Dimension(letter="s", name="Scenario", items=["1", "2", "10", "2000"], dtype=str)
    ut = fd.Dimension(letter="u", name="untyped years", items=[1990, 1995, 2000])
    near = fd.FlodymArray(dims=fd.DimensionSet(dim_list=[yr, tx, ut]), values=gen.values_one("dyadic", rng, (len(yr.items), 4, 3)))
    y0 = yr.items[0]
    for k in ({"t": y0 + 0.5}, {"t": y0 + 0.9}, {"t": str(y0)}, {"Time": np.float64(y0) + 0.25}, {"t": [yr.items[1], yr.items[0] + 0.5]}, {"t": [str(y0)]}, {"t": True},
              {"s": 1}, {"s": 2000}, {"s": 10.0}, {"Scenario": [1, 2]}, {"s": np.int64(2)}, {"u": 1990.5}, {"u": "1990"}, {"t": y0, "s": 1}, {"t": float(y0) + 0.5, "s": "1"},
              {"t": float(y0)}, {"t": np.int64(y0)}, {"u": 1995.0}):  # the last three name items (equal as numbers): judged as reads
        try:
            near[k]
        except Exception:
            pass
        t = near.copy()
        try:
            t[k] = 3.0
        except Exception:
            pass
    # ambiguity: two dimensions sharing an item
    d1 = fd.Dimension(letter="p", name="first", items=["x", "y", "both"])
    d2 = fd.Dimension(letter="q", name="second", items=["both", "z"])
    amb = fd.FlodymArray(dims=fd.DimensionSet(dim_list=[d1, d2]), values=gen.values_one("dyadic", rng, (3, 2)))
    for k in ("both", ("x", "both"), "x", ("x", "z"), {"p": "both"}, {"q": "both", "p": "both"}):
        try:
            amb[k]
        except Exception:
            pass
        try:
            amb.copy()[k] = 7.0
        except Exception:
            pass


def do_items_where_split(hub, U, letters, rng):
    fd = hub.fd
    x = fd.FlodymArray(dims=gen.dimset(fd, U, letters), values=gen.values_one("dyadic", rng, gen.shape_of(U, letters)))
    med = float(np.median(x.values)) if x.values.size else 0.0
    preds = [lambda v: v > med, lambda v: v < 0, lambda v: v == 0, lambda v: np.abs(v) > 1e9, lambda v: np.ones_like(v, dtype=bool), lambda v: v >= med]
    for p in preds:
        try:
            x.items_where(p)
        except Exception:
            pass
    # labels longer than any fixed-width string type someone might pick, sharing a long common prefix
    long_dim = fd.Dimension(letter="L", name="long labels", items=["very long label of a material class " + "x" * 20 + suffix for suffix in ("-A", "-B", "-C")])
    short_dim = fd.Dimension(letter="n", name="number", items=[1, 2])
    xl = fd.FlodymArray(dims=fd.DimensionSet(dim_list=[short_dim, long_dim]), values=np.array([[1.0, -2.0, 3.0], [-4.0, 5.0, -6.0]]))
    for p in (lambda v: v < 0, lambda v: v > 0):
        try:
            xl.items_where(p)
        except Exception:
            pass
    for l in letters:
        for spell in (l, U[l].name):
            try:
                x.split(spell)
            except Exception:
                pass
    try:
        x.split("nope")
    except Exception:
        pass


def do_history(hub, U, all_letters, letters, rng, length):
    """One target, many assignments to overlapping regions (judged call by call against the state before each)."""
    fd = hub.fd
    shape = gen.shape_of(U, letters)
    t = fd.FlodymArray(dims=gen.dimset(fd, U, letters), values=gen.values_one("dyadic", rng, shape))
    for _ in range(length):
        assign = tuple(rng.choice(KINDS_WRITE, p=[0.4, 0.3, 0.15, 0.15]) for _ in letters)
        key = build_key(fd, U, letters, assign, rng, rng.choice(["id", "rand"]), rng.choice(["letter", "name", "mixed"]))
        r = rng.random()
        try:
            if r < 0.1:
                t[key] = int(rng.integers(-3, 4))  # an integer fill must not change how later fractional values are stored
            elif r < 0.3:
                t[key] = float(rng.integers(-40, 40)) / 8
            elif r < 0.55 and isinstance(key, dict):
                rd = region_dims(fd, U, letters, key)
                rshape = tuple(len(d.items) if not isinstance(d, tuple) else len(d[2]) for d in rd)
                t[key] = gen.values_one("dyadic", rng, rshape)
            elif isinstance(key, dict) and not any(is_listlike(v) for v in key.values()):
                rd = region_dims(fd, U, letters, key)
                dims = list(rd)
                extra = [U[l] for l in all_letters if l not in [d.letter for d in dims] and l.upper() not in [d.letter for d in dims]]
                if extra and rng.random() < 0.5:
                    dims.append(extra[int(rng.integers(0, len(extra)))])
                if rng.random() < 0.15 and dims:
                    dims.pop()
                dims = [dims[i] for i in rng.permutation(len(dims))]
                ds = fd.DimensionSet(dim_list=dims)
                t[key] = fd.FlodymArray(dims=ds, values=gen.values_one("dyadic", rng, ds.shape))
            else:
                if rng.random() < 0.25:
                    t[...] = int(rng.integers(0, 3))
                else:
                    t[...] = gen.values_one("dyadic", rng, shape if rng.random() < 0.7 else shape[::-1] + (1,))
        except Exception:
            pass
