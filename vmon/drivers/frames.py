"""frames driver: data frames in every supported layout built from a ground-truth label->value map
(never through flodym's own converter), plus injected data faults."""

from __future__ import annotations

import io
import itertools

import numpy as np
import pandas as pd

DIM_POOL = [
    # letter, name, items, dtype
    ("t", "time", [2000, 2001, 2002, 2003, 2004], int),
    ("r", "region", ["EUR", "USA", "CHN", "IND"], str),
    ("m", "material", ["steel", "wood", "glass"], None),
    ("g", "good", ["car", "bus", "bike", "train"], str),
    ("s", "scenario", ["base"], str),
    ("u", "unit", [7], int),
    ("k", "klass", [101, 102, 103], None),  # untyped ints: only where no text round trip / wide header is involved
]


def make_dims(fd, rng, ndim=None, allow_untyped_int=True, need_multi=True):
    ndim = int(rng.integers(1, 5)) if ndim is None else ndim
    pool = [d for d in DIM_POOL if allow_untyped_int or d[0] != "k"]
    while True:
        idx = rng.choice(len(pool), size=min(ndim, len(pool)), replace=False)
        spec = []
        for i in idx:
            l, n, items, dt = pool[i]
            if l == "t" and rng.random() < 0.3:
                # other calendars: years at the very ends of what counts as a calendar year; integer labels whose order as text differs
                # from their order as numbers
                items = [[1700, 1850, 2000, 2150, 2300], [5, 10, 20, 900, 1000]][int(rng.integers(0, 2))]
            if len(items) > 1:
                k = int(rng.integers(2, len(items) + 1))
                items = list(items[:k]) if rng.random() < 0.5 else [items[j] for j in sorted(rng.choice(len(items), size=k, replace=False).tolist())]
            items = list(items)
            if len(items) > 1 and rng.random() < 0.5:
                items = [items[j] for j in rng.permutation(len(items))]  # item order is arbitrary (e.g. years not ascending)
            spec.append((l, n, items, dt))
        if not need_multi or any(len(s[2]) > 1 for s in spec):
            break
    dims = fd.DimensionSet(dim_list=[fd.Dimension(letter=l, name=n, items=list(it), **({"dtype": dt} if dt is not None else {})) for l, n, it, dt in spec])
    if rng.random() < 0.25:
        # dimensions DERIVED from others that have been in use: the originals go through an export / import first, the ones handed out
        # are pydantic copies of them with the items in another order (model_copy(update=...)) or plain shallow / deep copies
        try:
            warm = fd.FlodymArray(dims=dims, values=np.arange(float(int(np.prod(dims.shape)))).reshape(dims.shape))
            fd.FlodymArray.from_df(dims=dims, df=warm.to_df(index=False))
            [d.index(d.items[-1]) for d in dims]
        except Exception:
            pass
        new_spec, new_dims = [], []
        for (l, n, it, dt), d in zip(spec, dims):
            how = int(rng.integers(0, 3))
            if how == 0 and len(it) > 1:
                it2 = [it[j] for j in rng.permutation(len(it))]
                new_dims.append(d.model_copy(update={"items": list(it2)}))
                new_spec.append((l, n, it2, dt))
            else:
                new_dims.append(d.model_copy() if how == 1 else d.model_copy(deep=True))
                new_spec.append((l, n, list(it), dt))
        spec, dims = new_spec, fd.DimensionSet(dim_list=new_dims)
    return spec, dims


def make_values(rng, shape):
    """unique dyadic cell values in a range disjoint from every item set (items are < 3000 or strings)"""
    n = int(np.prod(shape)) if shape else 1
    base = 4096.0 + np.arange(n) * 0.25
    v = rng.permutation(base)
    return v.reshape(shape)


def long_records(spec, values):
    """ground truth: list of (labels tuple, value) in dimension order"""
    recs = []
    for idx in np.ndindex(*values.shape):
        recs.append((tuple(spec[k][2][i] for k, i in enumerate(idx)), float(values[idx])))
    return recs


HEADER_STYLES = ["names", "letters", "mixed", "anonymous"]


def render(spec, recs, rng, layout="long", wide_dim=None, header="names", in_index="none", vname="value", omit_single=False, unnamed_year_index=False, foreign_named_index=False,
           perm_rows=True, perm_cols=True, value_pos=None):
    """Build a DataFrame.  Returns (df, info) where info describes the structure (for finding predicates)."""
    k = len(spec)
    keep = [i for i in range(k) if not (omit_single and len(spec[i][2]) == 1)]
    colnames = {}
    for i in range(k):
        l, n = spec[i][0], spec[i][1]
        if header == "names":
            colnames[i] = n
        elif header == "letters":
            colnames[i] = l
        elif header == "mixed":
            colnames[i] = n if rng.random() < 0.5 else l
        else:
            colnames[i] = f"col{i}"
    info = {"dimcol_of": {colnames[i]: spec[i] for i in keep if not (layout == "wide" and i == wide_dim)}, "layout": layout, "header": header, "in_index": in_index, "vname": vname, "omit_single": omit_single, "wide_dim": None if wide_dim is None else spec[wide_dim][0]}
    if layout == "long":
        data = {colnames[i]: [r[0][i] for r in recs] for i in keep}
        data[vname] = [r[1] for r in recs]
        df = pd.DataFrame(data)
        dimcols = [colnames[i] for i in keep]
        if perm_cols:
            dimcols = [dimcols[j] for j in rng.permutation(len(dimcols))]
        pos = int(rng.integers(0, len(dimcols) + 1)) if value_pos is None else value_pos
        cols = dimcols[:pos] + [vname] + dimcols[pos:]
        df = df[cols]
    else:
        wd = wide_dim
        others = [i for i in keep if i != wd]
        rows = {}
        for lab, v in recs:
            rows.setdefault(tuple(lab[i] for i in others), {})[lab[wd]] = v
        witems = list(spec[wd][2])
        if perm_cols:
            witems = [witems[j] for j in rng.permutation(len(witems))]
        data = {colnames[i]: [key[j] for key in rows] for j, i in enumerate(others)}
        for it in witems:
            data[it] = [rows[key].get(it, np.nan) for key in rows]
        df = pd.DataFrame(data)
        dimcols = [colnames[i] for i in others]
        if perm_cols and dimcols:
            dimcols = [dimcols[j] for j in rng.permutation(len(dimcols))]
        cols = dimcols + witems  # dimension columns first (the documented wide layout)
        df = df[cols]
    if perm_rows and len(df) > 1:
        df = df.iloc[rng.permutation(len(df))]
        if rng.random() < 0.5:
            df = df.reset_index(drop=True)
    dim_cols_present = [c for c in df.columns if c in [colnames[i] for i in keep]]
    if in_index != "none" and dim_cols_present and header != "anonymous":
        if in_index == "all":
            df = df.set_index(dim_cols_present)
        else:
            n = int(rng.integers(1, len(dim_cols_present) + 1))
            df = df.set_index([dim_cols_present[j] for j in sorted(rng.choice(len(dim_cols_present), size=n, replace=False).tolist())])
    if unnamed_year_index and layout == "long" and in_index == "none" and header in ("names", "letters"):
        # a dimension of calendar years held in the frame's own, UNNAMED index (as after df.set_index(years).rename_axis(None)): it is
        # identified through its items alone
        yc = [c for c in dim_cols_present if info["dimcol_of"][c][3] is int and len(info["dimcol_of"][c][2]) > 1 and all(1700 <= q <= 2300 for q in info["dimcol_of"][c][2])]
        if yc:
            df = df.set_index(yc[0])
            df.index = df.index.astype(np.int64)
            df.index.name = None
            info["unnamed_year_index"] = yc[0]
    if foreign_named_index and layout == "long" and in_index == "none" and header in ("names", "letters") and not info.get("unnamed_year_index"):
        # a dimension held in the frame's index under a header that is neither its name nor its letter ("code", the "Unnamed: 0" of a
        # re-read file): the index becomes a column and the dimension is identified through its items
        ic = [c for c in dim_cols_present if len(info["dimcol_of"][c][2]) > 1 and all(isinstance(q, int) and not isinstance(q, bool) for q in info["dimcol_of"][c][2])]
        if ic:
            df = df.set_index(ic[0])
            df.index = df.index.astype(np.int64)
            df.index.name = ["code", "Unnamed: 0", "id"][int(rng.integers(0, 3))]
            info["foreign_named_index"] = ic[0]
    info["columns"] = [str(c) for c in (list(df.index.names) if df.index.names != [None] else []) + list(df.columns)]
    # structural facts for finding predicates
    if header == "anonymous" and layout == "long":
        cols = list(df.columns)
        vp = cols.index(vname)
        info["item_inferred_column_after_value_column"] = vp < len(cols) - 1
    else:
        info["item_inferred_column_after_value_column"] = False
    return df, info


def csv_roundtrip(df, index):
    buf = io.StringIO()
    df.to_csv(buf, index=index)
    buf.seek(0)
    return pd.read_csv(buf)


# ---------------------------------------------------------------------------
# faults (C12)

FAULTS = ["drop_row", "dup_row", "unknown_item", "blank_value", "extra_row", "drop_column", "junk_columns", "conflicting_dup", "respelled_dup", "relabel_to_existing"]
TOLERATED_MISSING = {"drop_row", "blank_value"}
TOLERATED_EXTRA = {"extra_row"}


def unknown_label(rng, items, typed_int):
    """a label that is NOT an item but looks like one: an item with a suffix / padding / other case / cut short, a neighbouring number"""
    items = list(items)
    it = items[int(rng.integers(0, len(items)))]
    if typed_int or all(isinstance(q, (int, np.integer)) and not isinstance(q, bool) for q in items):
        cands = [9999, int(it) * 10, -int(it) - 1, max(int(q) for q in items) + 1, min(int(q) for q in items) - 1]
    else:
        t = str(it)
        cands = ["no-such-item", t + "A", t + "27", t + " ", " " + t, t.upper(), t.lower(), t.swapcase(), t[:-1], t + "_" + t, "Rest of " + t]
    cands = [c for c in cands if c not in items and c != ""]
    return cands[int(rng.integers(0, len(cands)))] if cands else (9999 if typed_int else "no-such-item")


def position(rng, n, where):
    if n <= 0:
        return 0
    return {"first": 0, "last": n - 1, "middle": n // 2}.get(where, int(rng.integers(0, n)))


def inject(df, spec, info, fault, rng, where):
    """Apply one fault to a long or wide frame with plain columns (no index).  Returns (df, detail) or (None, why)."""
    df = df.copy().reset_index(drop=True)
    n = len(df)
    vname = info["vname"]
    dimcols = [c for c in df.columns if c in info["dimcol_of"]]
    wide = info["layout"] == "wide"
    valcols = [c for c in df.columns if c not in dimcols]
    if fault == "drop_row":
        if n < 2:
            return None, "too few rows"
        i = position(rng, n, where)
        return df.drop(index=i).reset_index(drop=True), {"row": i}
    if fault in ("dup_row", "conflicting_dup"):
        i = position(rng, n, where)
        row = df.iloc[[i]].copy()
        if fault == "conflicting_dup":
            for c in valcols:
                row[c] = row[c] + 1.0
        out = pd.concat([df, row], ignore_index=True)
        if rng.random() < 0.5:
            out = out.iloc[rng.permutation(len(out))].reset_index(drop=True)
        return out, {"row": i}
    if fault == "respelled_dup":
        # a second row for the same entry whose label is spelled as text / number: the same label after type conversion
        typed = [c for c in dimcols if info["dimcol_of"][c][3] is int]
        if not typed:
            return None, "no int-typed dimension column"
        i = position(rng, n, where)
        c = typed[int(rng.integers(0, len(typed)))]
        row = df.iloc[[i]].copy()
        df[c] = df[c].astype(object)
        row[c] = row[c].astype(object)
        row.iloc[0, list(df.columns).index(c)] = str(row.iloc[0, list(df.columns).index(c)])
        for vc in valcols:
            row[vc] = row[vc] + 1.0
        if rng.random() < 0.5 and n > 1:
            # stands in for another row, so the row count still matches
            j = (i + 1) % n
            df = df.drop(index=j).reset_index(drop=True)
        return pd.concat([df, row], ignore_index=True), {"row": i, "column": str(c)}
    if fault == "relabel_to_existing":
        # one row takes over the labels of another: the number of rows stays that of a complete table, one combination is
        # there twice (with competing values) and one is missing
        if n < 2 or not dimcols:
            return None, "too few rows"
        i = position(rng, n, where)
        j = int(rng.integers(0, n - 1))
        j = j if j < i else j + 1
        same = all(df.loc[i, c] == df.loc[j, c] for c in dimcols)
        if same:
            return None, "rows carry the same labels already"
        for c in dimcols:
            df.loc[i, c] = df.loc[j, c]
        return df, {"row": i, "takes_labels_of": j}
    if fault == "unknown_item":
        if not dimcols:
            return None, "no dimension column"
        i = position(rng, n, where)
        c = dimcols[int(rng.integers(0, len(dimcols)))]
        typed_int = info["dimcol_of"][c][3] is int
        df[c] = df[c].astype(object)
        lab = unknown_label(rng, info["dimcol_of"][c][2], typed_int)
        df.loc[i, c] = lab
        return df, {"row": i, "column": str(c), "relabelled": True, "label": repr(lab)}
    if fault == "extra_row":
        if not dimcols:
            return None, "no dimension column"
        i = position(rng, n, where)
        row = df.iloc[[i]].copy()
        c = dimcols[int(rng.integers(0, len(dimcols)))]
        typed_int = info["dimcol_of"][c][3] is int
        row[c] = row[c].astype(object)
        row.iloc[0, list(df.columns).index(c)] = unknown_label(rng, info["dimcol_of"][c][2], typed_int)
        df[c] = df[c].astype(object)
        out = pd.concat([df.iloc[:i], row, df.iloc[i:]], ignore_index=True)
        return out, {"row": i, "column": str(c)}
    if fault == "blank_value":
        i = position(rng, n, where)
        c = valcols[int(rng.integers(0, len(valcols)))]
        df.loc[i, c] = np.nan
        return df, {"row": i, "column": str(c)}
    if fault == "drop_column":
        multi = [c for c in dimcols if len(info["dimcol_of"][c][2]) > 1]
        if not multi:
            return None, "no multi-item dimension column"
        c = multi[int(rng.integers(0, len(multi)))]
        return df.drop(columns=[c]), {"column": str(c)}
    if fault == "junk_columns":
        # a surplus numeric column; sometimes it carries the name arrays are given ("par" in the reader routes, the default "unnamed")
        jname = ["junk one", "junk one", "par", "unnamed", "Par", "values"][int(rng.integers(0, 6))]
        if jname in df.columns:
            jname = "junk one"
        df[jname] = np.arange(n) * 0.5 + 70000.0
        if not wide:
            pass
        else:
            df["junk two"] = np.arange(n) * 0.5 + 80000.0
        return df, {"added": 1 if not wide else 2}
    return None, "unknown fault"
