"""program driver: hostile random programs over a pool of arrays; after every step the whole pool is
re-checked (shape invariant) and compared with its snapshot (only the documented in-place target may differ)."""

from __future__ import annotations

import numpy as np
import pandas as pd

from .. import gen
from ..model import Snap
from ..oracles.inv import inv_problem
from . import index as idx

MP13 = "pool-invariant"
MP15 = "pool-unchanged"


class Pool:
    def __init__(self):
        self.arrays = []

    def add(self, a, fd, cap=10, rng=None):
        if isinstance(a, fd.FlodymArray):
            self.arrays.append(a)
            if len(self.arrays) > cap:
                self.arrays.pop(int(rng.integers(0, len(self.arrays) - 1)) if rng is not None else 0)


def run_program(rec, hub, seed_rng, steps, letters="abcd", ill_rate=0.3, props=("C13", "C15")):
    fd = hub.fd
    rng = seed_rng
    pat = gen.LENGTH_PATTERNS[len(letters)][int(rng.integers(0, len(gen.LENGTH_PATTERNS[len(letters)])))] if len(letters) in gen.LENGTH_PATTERNS else (2,) * len(letters)
    U = gen.universe(fd, dict(zip(letters, pat)), rng=rng)
    tdim = fd.Dimension(letter="t", name="time", items=[2000, 2001, 2002, 2003], dtype=int)
    pool = Pool()
    log = []

    def rand_letters(minn=0):
        k = int(rng.integers(minn, len(letters) + 1))
        return tuple(rng.permutation(list(letters))[:k])

    def new_array(ls=None, regime="dyadic"):
        ls = rand_letters() if ls is None else ls
        return fd.FlodymArray(dims=gen.dimset(fd, U, ls), values=gen.values_one(regime, rng, gen.shape_of(U, ls)))

    for _ in range(3):
        pool.add(new_array(), fd)
    # a dimension built from a list the user keeps (and goes on editing): arrays over it are in the pool from the start
    own_items = ["u1", "u2", "u3"]
    udim = fd.Dimension(letter="u", name="the user's own", items=own_items)
    own_copy = fd.Dimension(letter="u", name="the user's own", items=udim.items) if rng.random() < 0.5 else udim  # rebuilt from another one's attribute
    pool.add(fd.FlodymArray(dims=fd.DimensionSet(dim_list=[udim]), values=np.array([1.0, 2.0, 3.0])), fd)
    pool.add(fd.FlodymArray(dims=fd.DimensionSet(dim_list=[U[letters[0]], own_copy]), values=np.ones((len(U[letters[0]].items), 3))), fd)
    live = {"ds": gen.dimset(fd, U, rand_letters())}
    keep_fill = []

    def pick():
        return pool.arrays[int(rng.integers(0, len(pool.arrays)))]

    def wrong_shape(shape):
        c = [shape[::-1] + (1,), shape + (2,), shape[1:], (3,) + shape, tuple(s + 1 for s in shape) if shape else (2,)]
        s = c[int(rng.integers(0, len(c)))]
        return s if s != shape else shape + (1,)

    def step():
        """returns (description, in-place target or None, results to add)"""
        ill = rng.random() < ill_rate
        x = pick()
        kind = rng.choice(["ctor", "binop", "reduce", "read", "write", "setvals", "df", "stack", "apply", "stock", "copy", "classm", "dimset", "own_list"])
        if kind == "own_list":
            # the user edits the list the dimension was once built from: every array over that dimension stays what it is
            if rng.random() < 0.6:
                own_items.append(f"u{len(own_items) + 1}")
            elif len(own_items) > 1:
                own_items.pop()
            return ("own_list edited", None, [])
        ls = tuple(x.dims.letters)
        if kind == "dimset":
            # a dimension set kept by the user: looked at, edited in place, and used to declare arrays in between
            ds = live["ds"]
            present = list(ds.letters)
            absent = [l for l in letters if l not in present]
            _ = (ds.shape, ds.total_size, str(ds), ds.ndim)
            c = int(rng.integers(0, 5))
            if c == 0 and absent:
                ds.expand_by([U[l] for l in absent[: int(rng.integers(1, len(absent) + 1))]], inplace=True)
            elif c == 1 and absent:
                ds.append(U[absent[0]], inplace=True) if rng.random() < 0.5 else ds.insert(int(rng.integers(0, len(present) + 1)), U[absent[0]], inplace=True)
            elif c == 2 and present:
                ds.drop(present[int(rng.integers(0, len(present)))], inplace=True)
            elif c == 3 and present and absent:
                ds.replace(present[0], U[absent[0]], inplace=True)
            def cast_into_live_set():
                # an array made by casting a small one to the user's live set (which goes on being edited afterwards)
                keep_ = tuple(ds.letters)[: int(rng.integers(0, len(ds.letters) + 1))]
                small = fd.FlodymArray(dims=ds[keep_] if keep_ else fd.DimensionSet(dim_list=[]), values=np.ones(tuple(len(U[l].items) for l in keep_)))
                return small.cast_to(ds)

            return (f"dimset edit {c} then declare", None, [lambda: fd.FlodymArray(dims=ds), lambda: fd.FlodymArray(dims=ds, values=np.ones(tuple(len(U[l].items) for l in ds.letters))),
                                                        lambda: fd.FlodymArray.full(ds, 1.5), cast_into_live_set, lambda: fd.FlodymArray.from_dims_superset(ds, tuple(ds.letters)[:1])])
        if kind == "ctor":
            ls2 = rand_letters()
            shape = gen.shape_of(U, ls2)
            if ill:
                return (f"ctor wrong shape {ls2}", None, [lambda: fd.FlodymArray(dims=gen.dimset(fd, U, ls2), values=np.ones(wrong_shape(shape)))])
            return (f"ctor {ls2}", None, [lambda: new_array(ls2, rng.choice(["dyadic", "real"]))])
        if kind == "classm":
            ls2 = rand_letters()
            ds = gen.dimset(fd, U, ls2)
            c = int(rng.integers(0, 5))
            if c == 0:
                return (f"full {ls2}", None, [lambda: fd.FlodymArray.full(ds, 2.5)])
            if c == 1:
                if rng.random() < 0.5:
                    fill = gen.values_one("dyadic", rng, x.dims.shape)  # a fill array of exactly the template's shape
                    keep_fill.append(fill)
                    return ("full_like array fill", None, [lambda: fd.FlodymArray.full_like(x, fill)])
                return ("full_like", None, [lambda: fd.FlodymArray.full_like(x, 1.0)])
            if c == 2:
                return ("scalar", None, [lambda: fd.FlodymArray.scalar(3.0)])
            if c == 3:
                sup = gen.dimset(fd, U, letters)
                req = ls2 if not ill else ls2 + ("q",)
                return (f"from_dims_superset {req}", None, [lambda: fd.FlodymArray.from_dims_superset(sup, req)])
            return (f"full bad fill {ls2}", None, [lambda: fd.FlodymArray.full(ds, np.ones(wrong_shape(ds.shape))) if ill else fd.FlodymArray.full(ds, np.ones(ds.shape))])
        if kind == "binop":
            y = pick() if rng.random() < 0.8 else float(rng.integers(1, 9))
            op = rng.choice(["add", "sub", "mul", "div", "pow", "min", "max", "radd", "rsub", "neg", "abs", "radd0", "sum1", "sum2"])
            if ill:
                y = rng.choice(["text", None])
            f = {"add": lambda: x + y, "sub": lambda: x - y, "mul": lambda: x * y, "div": lambda: x / y, "pow": lambda: x**y,
                 "min": lambda: x.minimum(y), "max": lambda: x.maximum(y), "radd": lambda: 2 + x, "rsub": lambda: 2 - x, "radd0": lambda: (0 + x) if rng.random() < 0.5 else (0.0 + x), "sum1": lambda: sum([x]), "sum2": lambda: sum([x, y]) if isinstance(y, fd.FlodymArray) else sum([x, x]),
                 "neg": lambda: -x, "abs": lambda: abs(x)}[op]
            return (f"{op}", None, [f])
        if kind == "reduce":
            c = rng.choice(["sum_to", "sum_over", "cast_to", "shares", "cumsum", "cumsum_inplace"])
            sub = tuple(rng.permutation(list(ls))[: int(rng.integers(0, len(ls) + 1))]) if ls else ()
            if ill:
                sub = sub + ("q",)
            if c == "sum_to":
                return (f"sum_to {sub}", None, [lambda: x.sum_to(sub)])
            if c == "sum_over":
                return (f"sum_over {sub}", None, [lambda: x.sum_over(sub)])
            if c == "cast_to":
                extra = [l for l in letters if l not in ls]
                tl = list(ls) + list(rng.permutation(extra)[: int(rng.integers(0, len(extra) + 1))])
                tl = list(rng.permutation(tl))
                if ill and tl:
                    tl = tl[1:] if tl[0] in ls else [l for l in tl if l not in ls[:1]]
                return (f"cast_to {tl}", None, [lambda: x.cast_to(gen.dimset(fd, U, tl))])
            if c == "shares":
                return (f"shares {sub}", None, [lambda: x.get_shares_over(sub)])
            if not ls:
                return ("noop", None, [])
            l = ls[int(rng.integers(0, len(ls)))] if not ill else "q"
            if c == "cumsum":
                return (f"cumsum {l}", None, [lambda: x.cumsum(l)])
            return (f"cumsum inplace {l}", x, [(lambda: x.cumsum(l, inplace=True)) if rng.random() < 0.5 else (lambda: x.cumsum(l, True))])
        if kind in ("read", "write"):
            assign = tuple(rng.choice(idx.KINDS_WRITE if kind == "write" else idx.KINDS_READ) for _ in ls)
            key = idx.build_key(fd, U, ls, assign, rng, rng.choice(["id", "rand"]), rng.choice(["letter", "name", "mixed", "tuple"])) if ls else Ellipsis
            if ill:
                key = rng.choice(["no-such-item", 0]) if rng.random() < 0.5 else ({ls[0]: "no-such-item"} if ls else "zz")
            if kind == "read":
                return (f"read {assign}", None, [lambda: x[key]])
            if ill and isinstance(key, (dict, type(Ellipsis))) and x.values.size > 1 and rng.random() < 0.3:
                # a right-hand side of the region's shape that cannot be stored: one of its cells (not the first) holds text / None
                free = int(rng.integers(0, len(ls))) if ls else 0  # a region along ONE dimension (a column of cells), or one of several dimensions
                one_d = rng.random() < 0.7
                key_ok = idx.build_key(fd, U, ls, tuple(("-" if j_ == free else "1") if one_d else ("-" if k_ != "1" else "1") for j_, k_ in enumerate(assign)), rng, "id", "letter") if ls else Ellipsis
                try:
                    with hub.pause():
                        region = np.asarray(x[key_ok].values if key_ok is not Ellipsis else x.values)
                except Exception:
                    region = None
                if region is not None and region.size > 1:
                    bad_rhs = np.array(region + 1000.0, dtype=object)  # other numbers than the region holds
                    bad_rhs.reshape(-1)[int(rng.integers(1, bad_rhs.size))] = ["x", None, "1,5"][int(rng.integers(0, 3))]
                    form_ = int(rng.integers(0, 3))
                    if form_ == 2:
                        # ... handed over as an ARRAY over the region's dimensions (an array that adopted such values, e.g. read from a file)
                        try:
                            with hub.pause():
                                reg_arr = x[key_ok] if key_ok is not Ellipsis else x.copy()
                                src_bad = fd.FlodymArray(dims=reg_arr.dims, values=np.zeros(reg_arr.dims.shape))
                                src_bad.values = bad_rhs.reshape(reg_arr.dims.shape)
                            return ("write: a cell of an array source cannot be stored", x, [lambda: x.__setitem__(key_ok, src_bad)])
                        except Exception:
                            pass
                    if form_ == 1:
                        bad_rhs = bad_rhs.tolist()
                    return ("write: a cell of the right-hand side cannot be stored", x, [lambda: x.__setitem__(key_ok, bad_rhs)])
            y = pick()
            c = int(rng.integers(0, 3))
            rhs = y if c == 0 else (float(rng.integers(-9, 9)) if c == 1 else np.ones(wrong_shape(x.dims.shape) if ill else x.dims.shape))
            if c == 2:
                key = Ellipsis
            return (f"write {assign} rhs={type(rhs).__name__}", x, [lambda: x.__setitem__(key, rhs)])
        if kind == "setvals":
            shape = x.dims.shape
            v = np.ones(wrong_shape(shape)) if ill else gen.values_one("dyadic", rng, shape)
            if ill and rng.random() < 0.3:
                v = pick()
            via = rng.choice(["set_values", "ellipsis"])
            if via == "set_values":
                return (f"set_values {'ill' if ill else 'ok'}", x, [lambda: x.set_values(v)])
            return (f"[...]= {'ill' if ill else 'ok'}", x, [lambda: x.__setitem__(Ellipsis, v)])
        if kind == "df":
            if not ls:
                return ("noop", None, [])
            c = int(rng.integers(0, 3))

            def roundtrip():
                df = x.to_df(index=bool(rng.integers(0, 2)), sparse=False)
                if ill:
                    df = df.iloc[1:] if len(df) > 1 else df.assign(value=np.nan)
                return fd.FlodymArray.from_df(dims=x.dims, df=df)

            def setfrom():
                df = x.to_df(index=False)
                if ill:
                    df = pd.concat([df, df.iloc[:1]])
                tgt.set_values_from_df(df)

            if c == 0:
                return ("to_df->from_df", None, [roundtrip])
            tgt = x
            return ("set_values_from_df", x, [setfrom])
        if kind == "stack":
            if rng.random() < 0.5 and ls:
                l = ls[int(rng.integers(0, len(ls)))]
                return (f"split {l}", None, [lambda: list(x.split(l).values())])
            free = [l for l in letters if l not in ls]
            if not free:
                return ("noop", None, [])
            nd = U[free[0]]
            ys = [x.copy() for _ in nd.items]
            if ill:
                ys[-1] = new_array(tuple(ls) + (free[0],)) if True else ys[-1]
            return (f"stack over {nd.letter}", None, [lambda: fd.flodym_array_helper.flodym_array_stack(ys, nd)])
        if kind == "apply":
            c = int(rng.integers(0, 4))
            if c == 0:
                return ("abs", None, [lambda: x.abs()])
            if c == 1:
                return ("sign inplace", x, [lambda: x.sign(inplace=True)])
            if c == 2:
                return ("apply sqrt(abs)", None, [lambda: x.apply(lambda v: np.sqrt(np.abs(v)))])
            if rng.random() < 0.4:
                return ("apply round, arguments by position", None, [lambda: x.apply(np.round, {"decimals": 1})])
            if rng.random() < 0.3:
                return ("apply clip inplace, arguments by position", x, [lambda: x.apply(np.clip, {"a_min": 0.0, "a_max": None}, True)])
            return ("apply inplace *2", x, [lambda: x.apply(lambda v: v * 2, inplace=True)])
        if kind == "stock":
            sl = ("t",) + tuple(l for l in rand_letters() if l != "t")[:2]
            Ut = dict(U)
            Ut["t"] = tdim
            ds = fd.DimensionSet(dim_list=[Ut[l] for l in sl])
            good = fd.StockArray(dims=ds, values=np.abs(gen.values_one("dyadic", rng, ds.shape)))
            c = int(rng.integers(0, 7)) if ill else -1
            if c >= 5:
                # a compute() that cannot succeed, on a stock holding the user's data (a first estimate in the array that compute would
                # fill): whatever raises must leave the stock's arrays as they were
                ds_c = ds if len(sl) > 1 else fd.DimensionSet(dim_list=[Ut["t"], U[letters[0]]])
                shp = ds_c.shape
                last = (slice(None),) + tuple(n_ - 1 for n_ in shp[1:])  # the LAST label combination
                guess = fd.StockArray(dims=ds_c, values=np.full(shp, 7.0))
                sv = np.cumsum(np.abs(gen.values_one("dyadic", rng, shp)) + 1.0, axis=0)
                how = int(rng.integers(0, 7))
                solver = str(rng.choice(["lapack", "manual"]))
                if how == 6:
                    # lifetime parameters that are set but degenerate (a spread of exactly zero, a NaN mean, a Weibull scale of zero):
                    # whether compute() copes or refuses, a refusal must not leave half-written arrays
                    deg = int(rng.integers(0, 3))
                    lm_d = (lambda: fd.NormalLifetime(dims=ds_c, time_letter="t", mean=4.0, std=0.0)) if deg == 0 else (lambda: fd.LogNormalLifetime(dims=ds_c, time_letter="t", mean=float("nan"), std=1.0)) if deg == 1 else (lambda: fd.WeibullLifetime(dims=ds_c, time_letter="t", weibull_shape=2.0, weibull_scale=0.0))
                    if rng.random() < 0.5:
                        mk_deg = lambda: fd.InflowDrivenDSM(dims=ds_c, inflow=fd.StockArray(dims=ds_c, values=sv), stock=guess, lifetime_model=lm_d(), time_letter="t")
                    else:
                        mk_deg = lambda: fd.StockDrivenDSM(dims=ds_c, stock=fd.StockArray(dims=ds_c, values=sv), inflow=guess, lifetime_model=lm_d(), solver=solver, time_letter="t")

                    def degenerate_compute():
                        s_ = mk_deg()
                        with np.errstate(all="ignore"):
                            try:
                                s_.compute()
                            except Exception:
                                pass
                        return [s_.stock, s_.inflow, s_.outflow]

                    return (f"stock: compute with degenerate lifetime parameters ({deg}, {solver})", None, [degenerate_compute])
                if how >= 4:
                    # a time dimension of one or two steps (interval lengths cannot be derived from it) or with labels that are no numbers
                    t_short = fd.Dimension(letter="t", name=Ut["t"].name, items=[[2020], [2020, 2030], ["early", "mid", "late"]][int(rng.integers(0, 3))])
                    ds_s = fd.DimensionSet(dim_list=[t_short] + [d_ for d_ in ds_c if d_.letter != "t"])
                    shp_s = ds_s.shape
                    g_ = lambda: fd.StockArray(dims=ds_s, values=np.full(shp_s, 7.0))
                    ones_ = lambda f_: fd.StockArray(dims=ds_s, values=np.full(shp_s, f_))
                    if how == 4:
                        mk_short = lambda: fd.SimpleFlowDrivenStock(dims=ds_s, inflow=ones_(3.0), outflow=ones_(1.0), stock=g_(), time_letter="t")
                    else:
                        mk_short = lambda: fd.InflowDrivenDSM(dims=ds_s, inflow=ones_(3.0), stock=g_(), outflow=g_(), lifetime_model=fd.NormalLifetime(dims=ds_s, time_letter="t", mean=4.0, std=1.0), time_letter="t")

                    def failing_short():
                        s_ = mk_short()
                        try:
                            s_.compute()
                        except Exception:
                            pass
                        return [s_.stock, s_.inflow, s_.outflow]

                    return (f"stock: compute over a time dimension too short or not numeric ({how})", None, [failing_short])
                if how == 0:  # a gap in the data of the last label
                    sv[(int(rng.integers(0, shp[0])),) + last[1:]] = np.nan
                    mk_ = lambda: fd.StockDrivenDSM(dims=ds_c, stock=fd.StockArray(dims=ds_c, values=sv), inflow=guess, lifetime_model=fd.NormalLifetime(dims=ds_c, time_letter="t", mean=4.0, std=1.5), solver=solver, time_letter="t")
                elif how == 1:  # nothing of the last label survives its first year: singular system for that label only
                    mean = np.full(shp, 5.0)
                    mean[last] = 0.25
                    mk_ = lambda: fd.StockDrivenDSM(dims=ds_c, stock=fd.StockArray(dims=ds_c, values=sv), inflow=guess, lifetime_model=fd.FixedLifetime(dims=ds_c, time_letter="t", mean=mean), solver=solver, time_letter="t")
                elif how == 2:  # parameters never set
                    mk_ = lambda: fd.InflowDrivenDSM(dims=ds_c, inflow=fd.StockArray(dims=ds_c, values=sv), stock=guess, lifetime_model=fd.WeibullLifetime(dims=ds_c, time_letter="t"), time_letter="t")
                else:  # a quadrature order the table builder refuses
                    mk_ = lambda: fd.InflowDrivenDSM(dims=ds_c, inflow=fd.StockArray(dims=ds_c, values=sv), outflow=guess, lifetime_model=fd.LogNormalLifetime(dims=ds_c, time_letter="t", mean=4.0, std=1.0, n_pts_per_interval=12), time_letter="t")

                def failing_compute():
                    s_ = mk_()
                    try:
                        s_.compute()  # judged by the monitors in the wrapper (atomicity of a raising call)
                    except Exception:
                        pass
                    return [s_.stock, s_.inflow, s_.outflow]

                return (f"stock: compute that cannot succeed ({how}, {solver})", None, [failing_compute])
            if ill and len(sl) > 1 and rng.random() < 0.3:
                # same letters, but one dimension is ANOTHER dimension under that letter: a single aggregate item ("world") or as many
                # items with other labels - such arrays / models are not over the stock's dimensions
                l_o = sl[-1]
                base_o = Ut[l_o]
                r_o = rng.random()
                # ... or the SAME labels in another order (position q then means another label)
                items_o = ["aggregate"] if r_o < 0.25 else [f"other {q}" for q in range(len(base_o.items))] if r_o < 0.5 or len(base_o.items) < 2 else list(base_o.items)[1:] + [base_o.items[0]]
                other_o = fd.Dimension(letter=l_o, name=base_o.name, items=items_o)
                ds_o = fd.DimensionSet(dim_list=[other_o if l == l_o else Ut[l] for l in sl])
                what_o = int(rng.integers(0, 4))
                if what_o < 3:
                    attr_o = ("inflow", "stock", "outflow")[what_o]
                    bad_o = fd.StockArray(dims=ds_o, values=np.ones(ds_o.shape))
                    return (f"stock: {attr_o} over a same-lettered other dimension", None, [lambda: fd.SimpleFlowDrivenStock(dims=ds, time_letter="t", **{attr_o: bad_o})])
                lm_o = fd.NormalLifetime(dims=ds_o, time_letter="t", mean=3.0, std=1.0)
                return ("stock: lifetime model over a same-lettered other dimension", None, [lambda: fd.InflowDrivenDSM(dims=ds, lifetime_model=lm_o, time_letter="t")])
            # the ill-dimensioned array may be of any array class (a Parameter, a plain FlodymArray ...), not only a StockArray
            acls = [fd.StockArray, fd.StockArray, fd.Parameter, fd.FlodymArray][int(rng.integers(0, 4))]
            if c == 0 and len(sl) > 1:  # array with permuted dims
                bad = acls(dims=fd.DimensionSet(dim_list=[Ut[l] for l in sl[::-1]]))
                return (f"stock: inflow dims permuted ({acls.__name__})", None, [lambda: fd.SimpleFlowDrivenStock(dims=ds, inflow=bad, time_letter="t")])
            if c == 1:  # array lacking a dim / extra dim
                bad = acls(dims=fd.DimensionSet(dim_list=[Ut[l] for l in sl[:-1]] if len(sl) > 1 else [Ut["t"], U[letters[0]]]))
                return (f"stock: stock dims differ ({acls.__name__})", None, [lambda: fd.InflowDrivenDSM(dims=ds, stock=bad, lifetime_model=fd.NormalLifetime, time_letter="t")])
            if c == 2 and len(sl) > 1:  # time not first
                ds2 = fd.DimensionSet(dim_list=[Ut[l] for l in sl[1:] + sl[:1]])
                return ("stock: time not first", None, [lambda: fd.SimpleFlowDrivenStock(dims=ds2, time_letter="t")])
            if c == 3 and rng.random() < 0.5:
                # same letters, other order (also with equal lengths, where shapes cannot tell)
                eq = fd.Dimension(letter="q", name="quart", items=[1, 2, 3, 4])
                eq2 = fd.Dimension(letter="w", name="width", items=["w1", "w2", "w3", "w4"])
                sds = fd.DimensionSet(dim_list=[tdim, eq, eq2])
                orders = [[tdim, eq2, eq], [eq, tdim, eq2], [eq2, eq, tdim]]
                lmd = fd.DimensionSet(dim_list=orders[int(rng.integers(0, 3))])
                try:
                    lm = fd.LogNormalLifetime(dims=lmd, time_letter="t", mean=3.0, std=1.0)
                except Exception:
                    lm = None
                if lm is not None:
                    return ("stock: lifetime model dims permuted", None, [lambda: fd.InflowDrivenDSM(dims=sds, lifetime_model=lm, time_letter="t")])
            if c == 3:  # lifetime model dims differ
                lmd = fd.DimensionSet(dim_list=[Ut["t"]] + ([] if len(sl) > 1 else [U[letters[0]]]))
                lm = fd.NormalLifetime(dims=lmd, time_letter="t", mean=3.0, std=1.0)
                return ("stock: lifetime model dims differ", None, [lambda: fd.StockDrivenDSM(dims=ds, lifetime_model=lm, time_letter="t")])
            if c == 4 and rng.random() < 0.5:
                foreign = [l for l in letters if l not in sl]
                if foreign:
                    pa = fd.FlodymArray(dims=gen.dimset(fd, U, (foreign[0],)), values=np.full(gen.shape_of(U, (foreign[0],)), 3.0))
                    if rng.random() < 0.35:
                        # same letter as one of the model's dimensions, other items (fewer of them)
                        l_ = sl[-1] if len(sl) > 1 else "t"
                        base = Ut[l_]
                        twin_ = fd.Dimension(letter=l_, name=base.name, items=list(base.items)[: max(1, len(base.items) - 1)])
                        pb = fd.FlodymArray(dims=fd.DimensionSet(dim_list=[twin_]), values=np.full((len(twin_.items),), 3.0))
                        if len(twin_.items) != len(base.items):
                            return ("lifetime: parameter over a same-lettered other dimension", None, [lambda: fd.NormalLifetime(dims=ds, time_letter="t", mean=pb, std=1.0)])
                    if rng.random() < 0.5:
                        return ("lifetime: parameter over a foreign dimension", None, [lambda: fd.NormalLifetime(dims=ds, time_letter="t", mean=pa, std=1.0)])
                    lm2 = fd.WeibullLifetime(dims=ds, time_letter="t")
                    return ("lifetime: set_prms with a foreign dimension", None, [lambda: lm2.set_prms(weibull_shape=pa, weibull_scale=2.0)])
            if c == 4:
                return ("stock: wrong time letter", None, [lambda: fd.SimpleFlowDrivenStock(dims=ds, time_letter=sl[-1] if len(sl) > 1 else "x")])

            def mk():
                s = fd.SimpleFlowDrivenStock(dims=ds, inflow=good, time_letter="t")
                s.compute()
                return [s.stock, s.inflow, s.outflow]

            def mk_dsm():
                lm = fd.NormalLifetime(dims=ds, time_letter="t", mean=2.0, std=0.8)
                s = fd.InflowDrivenDSM(dims=ds, inflow=good, lifetime_model=lm, time_letter="t")
                s.compute()
                return [s.stock, s.outflow]

            return ("stock ok", None, [mk if rng.random() < 0.5 else mk_dsm])
        if kind == "copy":
            return ("copy", None, [lambda: x.copy()])
        return ("noop", None, [])

    for i in range(steps):
        before = [(a, Snap(a)) for a in pool.arrays]
        try:
            desc, target, thunks = step()
        except Exception as e:  # generator problem, not a verdict
            rec.skip(MP13, f"step generator failed: {type(e).__name__}")
            continue
        log.append(desc)
        raised = None
        results = []
        for th in thunks:
            try:
                r = th()
                results.append(r)
            except Exception as e:
                raised = e
        # pool scan ----------------------------------------------------------------
        for a, s in before:
            p = inv_problem(fd, a)
            if "C13" in props:
                rec.event(MP13, sig=f"{desc.split(' ')[0]}|{'exc' if raised else 'ret'}", cls=f"pool|{desc.split(' ')[0]}|{'exc' if raised else 'ret'}")
                if p is not None:
                    rec.violation(MP13, f"pool-array-breaks-invariant-after:{desc.split(' ')[0]}:{'exception' if raised else 'return'}",
                                  {"step": desc, "problem": p, "exc": repr(raised)[:200] if raised else None, "history": log[-8:]}, prop="C13")
            changed = not Snap(a).same(s)
            if raised is not None:
                if "C13" in props and changed:
                    rec.violation(MP13, f"pool-array-changed-by-failed-step:{desc.split(' ')[0]}", {"step": desc, "exc": repr(raised)[:200], "history": log[-8:],
                                  "is_target": a is target}, prop="C13")
            elif "C15" in props:
                rec.event(MP15, sig=f"{desc.split(' ')[0]}|{len(before)}", cls=f"pool|{desc.split(' ')[0]}")
                if changed and a is not target:
                    rec.violation(MP15, f"pool-array-changed-though-not-the-target:{desc.split(' ')[0]}", {"step": desc, "history": log[-8:],
                                  "before": s.describe(16), "after": Snap(a).describe(16)}, prop="C15")
        first = desc.split(" ")[0]
        not_promised_independent = first in ("sum_to", "sum_over", "cumsum", "apply", "abs", "sign", "shares")
        for r in results:
            for a in (r if isinstance(r, list) else [r]):
                if isinstance(a, fd.FlodymArray) and not_promised_independent:
                    # reductions / apply with nothing to do may return views on the current tree; the statement does not
                    # list them among the independent results, so the pool keeps a private copy (recorded as information)
                    if any(isinstance(a.values, np.ndarray) and isinstance(b.values, np.ndarray) and np.shares_memory(a.values, b.values) for b, _ in before):
                        rec.count_info("info_views_returned_by_reductions_or_apply")
                    with hub.pause():
                        a = a.copy()
                if isinstance(a, fd.FlodymArray):
                    p = inv_problem(fd, a)
                    if p is not None and "C13" in props:
                        rec.violation(MP13, f"result-breaks-invariant:{desc.split(' ')[0]}", {"step": desc, "problem": p}, prop="C13")
                    pool.add(a, fd, rng=rng)
