"""system driver: random MFA system definitions, built systems with values, logging capture."""

from __future__ import annotations

import contextlib
import logging

import numpy as np

PROC_POOL = ["use phase", "waste mgmt", "recycling", "production", "market", "sorting plant", "landfill", "refinery"]
DIM_POOL = {
    "t": ("time", [2000, 2001, 2002, 2003, 2004], int),
    "r": ("region", ["EUR", "USA", "CHN"], str),
    "m": ("material", ["steel", "wood"], str),
    "g": ("good", ["car", "bus", "bike"], str),
    "e": ("element", ["Fe", "Cu"], str),
    "s": ("scenario", [0, 1, 2], int),  # labels counted from zero (a valid label that is falsy)
}
PUNCT_NAMES = ["sorting -> plant", "re-use (B2B)", "märkt & co", "a/b split", "100% scrap", "end_of_life", "use => reuse", "scrap_to_smelter", "Use Phase", "use"]


class Def:
    """plain description of a system (the ground truth the built system is compared with)"""

    def __init__(self):
        self.dims = []  # (letter, name, items, dtype)
        self.processes = []
        self.flows = []  # dict(src, dst, letters, override)
        self.stocks = []  # dict(name, process, letters, cls, lm, solver, time_letter)
        self.parameters = []  # dict(name, letters)
        self.naming = "arrow"


def gen_def(rng, max_proc=6, max_flows=12, max_stocks=3, hostile_names=False, n_time=None, self_loops=0.0, time_letter_variants=0.0, vary_items=False, big_system=0.0, lookalike_dim_names=0.0):
    d = Def()
    nt = int(rng.integers(3, 6)) if n_time is None else n_time
    others = [l for l in "rmges"]
    k = int(rng.integers(1, 4))
    chosen = ["t"] + [str(x) for x in rng.permutation(others)[:k]]
    for l in chosen:
        n, items, dt = DIM_POOL[l]
        if vary_items:
            if l == "t":
                start = 1990 + int(rng.integers(0, 40))
                items = [start + j for j in range(nt)]
            else:
                kk_ = int(rng.integers(1 if rng.random() < 0.15 else 2, len(items) + 1))
                ext = list(items) + ([f"{items[0]}-{j}" for j in range(3)] if dt is str else [7, 11, 13])
                items = [ext[j] for j in rng.permutation(len(ext))[:kk_]]
                if dt is int and rng.random() < 0.6 and 0 not in items:
                    items[0] = 0
                if dt is str and rng.random() < 0.2:
                    codes = ["7208", "7210", "2601", "2603", "850760", "2020"]  # product codes: text labels made of digits (no leading zeros)
                    items = [codes[j] for j in rng.permutation(len(codes))[: len(items)]]
        else:
            items = list(items[:nt]) if l == "t" else list(items[: int(rng.integers(1 if rng.random() < 0.15 else 2, len(items) + 1))])
        d.dims.append((l, n, items, dt))
    if lookalike_dim_names and rng.random() < lookalike_dim_names:
        # dimension names that look alike: two names differing in upper / lower case only, or a dimension called like a value column
        nt_ = [j for j, x in enumerate(d.dims) if x[0] != "t"]
        if len(nt_) >= 2 and rng.random() < 0.6:
            d.dims[nt_[1]] = (d.dims[nt_[1]][0], d.dims[nt_[0]][1].upper() if d.dims[nt_[0]][1] != d.dims[nt_[0]][1].upper() else d.dims[nt_[0]][1].lower(), d.dims[nt_[1]][2], d.dims[nt_[1]][3])
        elif nt_:
            d.dims[nt_[0]] = (d.dims[nt_[0]][0], str(rng.choice(["Value", "VALUE", " value"])), d.dims[nt_[0]][2], d.dims[nt_[0]][3])
    # the order of the system's dimension list is arbitrary
    if rng.random() < 0.5:
        d.dims = [d.dims[i] for i in rng.permutation(len(d.dims))]
    if rng.random() < big_system:
        max_proc, max_flows = 30, 60
    np_ = int(rng.integers(0, max_proc + 1))
    if max_proc > len(PROC_POOL) + len(PUNCT_NAMES):
        pass
    pool = list(PROC_POOL) + (PUNCT_NAMES if hostile_names else [])
    pool = pool + [f"process {j:02d}" for j in range(max(0, np_ - len(pool)))]
    names = [str(x) for x in rng.permutation(pool)[:np_]]
    d.processes = ["sysenv"] + names
    letters = [x[0] for x in d.dims]

    def rand_letters(min_n=0, time_first=False):
        n = int(rng.integers(min_n, len(letters) + 1))
        ls = [str(x) for x in rng.permutation(letters)[:n]]
        if time_first:
            ls = ["t"] + [l for l in ls if l != "t"]
        return tuple(ls)

    nf = int(rng.integers(1, max_flows + 1)) if len(d.processes) > 1 else int(rng.integers(0, 2))
    seen = set()
    for _ in range(nf):
        a, b = rng.integers(0, len(d.processes), size=2)
        if a == b and not (rng.random() < self_loops):
            if len(d.processes) == 1:
                continue
            b = (a + 1) % len(d.processes)
        src, dst = d.processes[a], d.processes[b]
        override = None
        if (src, dst) in seen or rng.random() < 0.15:
            override = f"flow number {len(d.flows)} x"
            if hostile_names and not getattr(d, "_bare_name_used", False) and rng.random() < 0.3:
                # ONE name per system without any ASCII letter or digit (an arrow, a percent sign, a name in another script): whatever
                # file name it is given, the array is exported like the others
                override = str(rng.choice(["=>", "->", "%", "\u2192", "\u043f\u043e\u0442\u043e\u043a", "\u6d41\u91cf"]))
                d._bare_name_used = True
        seen.add((src, dst))
        d.flows.append(dict(src=src, dst=dst, letters=rand_letters(), override=override))
    ns = int(rng.integers(0, max_stocks + 1))
    for i in range(ns):
        cls = str(rng.choice(["SimpleFlowDrivenStock", "InflowDrivenDSM", "StockDrivenDSM"]))
        lm = None if cls == "SimpleFlowDrivenStock" else str(rng.choice(["NormalLifetime", "FixedLifetime", "LogNormalLifetime", "WeibullLifetime", "FoldedNormalLifetime"]))
        proc = None if (rng.random() < 0.25 or len(d.processes) == 1) else d.processes[int(rng.integers(1, len(d.processes)))]
        d.stocks.append(dict(name=f"stock {i} of {proc}" if rng.random() < 0.5 else f"S{i}", process=proc, letters=rand_letters(1, time_first=True), cls=cls, lm=lm,
                             solver=str(rng.choice(["manual", "lapack"])), time_letter="t"))
    for i in range(int(rng.integers(0, 5))):
        d.parameters.append(dict(name=f"param {i}", letters=rand_letters()))
    d.naming = str(rng.choice(["arrow", "no_spaces", "ids"]))
    if rng.random() < time_letter_variants:
        # the time dimension is lettered 'y'; sometimes another dimension carries the letter 't'
        ren = {"t": "y"}
        if rng.random() < 0.5 and any(x[0] == "g" for x in d.dims):
            ren["g"] = "t"
        d.dims = [(ren.get(l, l), n, it, dt) for l, n, it, dt in d.dims]
        for coll in (d.flows, d.stocks, d.parameters):
            for o in coll:
                o["letters"] = tuple(ren.get(l, l) for l in o["letters"])
        for s_ in d.stocks:
            s_["time_letter"] = "y"
    return d


def flow_name(d: Def, f):
    if f["override"] is not None:
        return f["override"]
    a, b = f["src"], f["dst"]
    if d.naming == "arrow":
        return f"{a} => {b}"
    if d.naming == "no_spaces":
        return f"{a.replace(' ', '_')}_to_{b.replace(' ', '_')}"
    return f"F{d.processes.index(a)}_{d.processes.index(b)}"


def naming_function(fd, d: Def):
    import importlib

    fn = importlib.import_module("flodym.flow_naming")
    return {"arrow": fn.process_names_with_arrow, "no_spaces": fn.process_names_no_spaces, "ids": fn.process_ids}[d.naming]


def fd_dims(fd, d: Def):
    return fd.DimensionSet(dim_list=[fd.Dimension(letter=l, name=n, items=list(it), dtype=dt) for l, n, it, dt in d.dims])


def fd_definitions(fd, d: Def):
    flows = [fd.FlowDefinition(from_process_name=f["src"], to_process_name=f["dst"], dim_letters=tuple(f["letters"]), name_override=f["override"]) for f in d.flows]
    stocks = []
    for s in d.stocks:
        sub_cls = getattr(fd, s["cls"])
        if s.get("user_subclass"):
            # the user's own stock class, derived from the shipped one (extra methods, nothing overridden)
            sub_cls = s.setdefault("cls_obj", type("My" + s["cls"], (sub_cls,), {"describe": lambda self: f"{self.name} ({type(self).__name__})"}))
        kw = dict(name=s["name"], process_name=s["process"], dim_letters=tuple(s["letters"]), subclass=sub_cls, time_letter=s["time_letter"], solver=s["solver"])
        if s["lm"] is not None:
            kw["lifetime_model_class"] = getattr(fd, s["lm"])
        stocks.append(fd.StockDefinition(**kw))
    params = [fd.ParameterDefinition(name=p["name"], dim_letters=tuple(p["letters"])) for p in d.parameters]
    dimdefs = [fd.DimensionDefinition(name=n, letter=l, dtype=dt) for l, n, it, dt in d.dims]
    return dimdefs, flows, stocks, params


def build_system(fd, d: Def, cls=None):
    """assemble through the public helpers (make_processes / make_empty_flows / make_empty_stocks)"""
    dims = fd_dims(fd, d)
    dimdefs, flows, stocks, params = fd_definitions(fd, d)
    processes = fd.make_processes(d.processes)
    fl = fd.make_empty_flows(processes=processes, flow_definitions=flows, dims=dims, naming=naming_function(fd, d))
    st = fd.make_empty_stocks(stock_definitions=stocks, processes=processes, dims=dims)
    pr = {p["name"]: fd.Parameter(dims=dims.get_subset(tuple(p["letters"])), name=p["name"]) for p in d.parameters}
    return (cls or fd.MFASystem)(dims=dims, parameters=pr, processes=processes, flows=fl, stocks=st)


class LogCapture(logging.Handler):
    def __init__(self):
        super().__init__(level=logging.DEBUG)
        self.records = []

    def emit(self, record):
        self.records.append(record)


@contextlib.contextmanager
def capture_logs():
    root = logging.getLogger()
    h = LogCapture()
    old_level = root.level
    old_disable = logging.root.manager.disable
    logging.disable(logging.NOTSET)
    root.setLevel(logging.DEBUG)
    root.addHandler(h)
    # keep other handlers quiet while capturing
    others = [x for x in root.handlers if x is not h]
    for x in others:
        root.removeHandler(x)
    try:
        yield h
    finally:
        root.removeHandler(h)
        for x in others:
            root.addHandler(x)
        root.setLevel(old_level)
        logging.disable(old_disable)
