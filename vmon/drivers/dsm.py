"""dsm driver: stock classes x solvers x lifetime models x parameter shapes x grids x extra dims x drivers."""

from __future__ import annotations

import contextlib
import io
import itertools

import numpy as np

from .. import gen
from ..oracles import stock as S

LM_NAMES = ["FixedLifetime", "NormalLifetime", "FoldedNormalLifetime", "LogNormalLifetime", "WeibullLifetime"]


def time_grid(rng, tier, kind=None):
    kind = kind or rng.choice(["unit", "const2", "const5", "const10", "howto", "uneven", "uneven", "half", "unit_long", "deceptive", "framed"])
    nmax = 12 if tier == "quick" else 25
    if kind == "framed":
        # grids that recur within one process with the same first year, last year and length but other years in between (the same
        # reporting period cut differently)
        n = int(rng.choice([4, 5, 6]))
        total = 10 * n
        cuts = sorted(int(q) for q in rng.choice(np.arange(1, total), size=n - 2, replace=False))
        return [1960 + x for x in [0] + cuts + [total]], "uneven"
    if kind == "unit":
        n = int(rng.integers(3, nmax + 1))
        start = int(rng.integers(1900, 2050))
        return [start + i for i in range(n)], kind
    if kind == "unit_long":
        n = int(rng.integers(nmax // 2, nmax + 1))
        return [2000 + i for i in range(n)], "unit"
    if kind.startswith("const"):
        step = int(kind[5:])
        n = int(rng.integers(3, nmax + 1))
        return [1990 + step * i for i in range(n)], "constant"
    if kind == "long":
        n = int(rng.integers(100, 251)) if rng.random() < 0.5 else int(rng.integers(257, 541))  # on both sides of 256 and 512
        if rng.random() < 0.5:
            return [1850 + i for i in range(n)], "unit"
        steps = rng.choice([1, 1, 1, 2, 5], size=n - 1)
        return [int(x) for x in (1800 + np.concatenate(([0], np.cumsum(steps))))], "uneven"
    if kind == "deceptive":
        # uneven, but its end points look like an even grid: last - first == first step * (n - 1)
        n = int(rng.integers(4, nmax + 1))
        if rng.random() < 0.35:
            # fractional time items with uneven steps that span exactly n - 1 years (first and last look like consecutive years)
            for _ in range(50):
                cuts = sorted(set((rng.integers(1, 2 * (n - 1), size=n - 2) / 2.0).tolist()))
                if len(cuts) == n - 2:
                    items = [0.0] + cuts + [float(n - 1)]
                    if len(set(np.diff(items).tolist())) > 1:
                        return [2000.0 + x for x in items], "uneven"
        step0 = int(rng.integers(2, 7))
        total = step0 * (n - 1)
        for _ in range(50):
            cuts = sorted(rng.choice(np.arange(1, total), size=n - 2, replace=False).tolist())
            items = [0] + cuts + [total]
            d_ = np.diff(items)
            if d_[0] == step0 and len(set(d_.tolist())) > 1:
                return [2000 + int(x) for x in items], "uneven"
        return [2000, 2005, 2007, 2013, 2020], "uneven"
    if kind == "howto":
        return [2000, 2005, 2010, 2020, 2030], "uneven"
    if kind == "half":
        n = int(rng.integers(3, nmax + 1))
        steps = rng.choice([0.5, 1.0, 1.5, 2.5], size=n - 1)
        return [float(x) for x in (2000.0 + np.concatenate(([0.0], np.cumsum(steps))))], "uneven"
    n = int(rng.integers(3, nmax + 1))
    steps = rng.integers(1, 12, size=n - 1)
    return [int(x) for x in (1950 + np.concatenate(([0], np.cumsum(steps))))], "uneven"


def make_config(fd, rng, tier, model=None, grid_kind=None, solvable=False, n_extra=None, wide_p=0.0, very_long_p=0.05):
    """wide_p: share of configurations with several hundred labels (for checks that can afford tables of 10^6-10^7 entries)"""
    wide = False
    if grid_kind is None:
        r_ = rng.random()
        if r_ < 0.02:
            grid_kind = "long"  # a few long series (100-540 steps): size-dependent paths, accumulated rounding
        elif r_ < 0.02 + wide_p:
            wide = True  # ~100 years x several hundred labels: tables of 10^6-10^7 entries
    items, gclass = time_grid(rng, tier, grid_kind)
    if wide:
        n_w = int(rng.integers(70, 131))
        steps = rng.choice([1, 1, 1, 2, 5], size=n_w - 1) if rng.random() < 0.5 else np.ones(n_w - 1, dtype=int)
        items, gclass = [int(x) for x in (1900 + np.concatenate(([0], np.cumsum(steps))))], ("unit" if int(steps.max()) == 1 else "uneven")
    if len(items) > 60:
        n_extra = 0 if n_extra is None else min(n_extra, 1)
    if wide:
        n_extra = 1
    tl = "t" if rng.random() < 0.8 else "y"
    tdim = fd.Dimension(letter=tl, name="time" if tl == "t" else "year", items=list(items))
    n_extra = int(rng.integers(0, 3)) if n_extra is None else n_extra
    extra_letters = list(rng.permutation(["a", "b", "c"])[:n_extra])
    U = gen.universe(fd, {"a": 2, "b": 3, "c": 2})
    if wide:
        l_w = extra_letters[0]
        n_lab = int(rng.integers(500, 901))
        U[l_w] = fd.Dimension(letter=l_w, name=U[l_w].name, items=[f"{l_w}{q:04d}" for q in rng.permutation(n_lab)] if l_w != "b" else [int(q) for q in 1000 + rng.permutation(n_lab)])
    dims = fd.DimensionSet(dim_list=[tdim] + [U[l] for l in extra_letters])
    model = model or str(rng.choice(LM_NAMES))
    dtv = np.diff(np.array(items, dtype=float))
    span = float(items[-1] - items[0]) + float(dtv.mean())
    pnames = S.SURVIVAL[model][0]
    shape = tuple(dims.shape)
    very_long = bool(rng.random() < very_long_p) and len(items) <= 60
    cfg = dict(items=items, gclass=gclass, tl=tl, dims=dims, extra=extra_letters, model=model, shape=shape, U=U, tdim=tdim, layout=["C", "C", "F", "time-last"][(len(items) + len(model)) % 4],
               very_long=very_long, settings_late=bool((len(items) + len(model)) % 3 == 0), inflow_at=str(rng.choice(["start", "middle", "end"])), n_pts=int(rng.choice([1, 1, 1, 2, 3, 4, 5, 6, 7, 8, 9, 10])) if len(items) <= 60 else int(rng.choice([1, 2])))
    # ground-truth parameter values per (cohort, labels)
    lo = max(0.6 * float(dtv.min()), 0.3) if solvable else 0.3 * float(dtv.min())
    truth, given = {}, {}
    for pn in pnames:
        pshape_kind = str(rng.choice(["scalar", "labels", "labels", "time", "full"]))
        # which dims the parameter lives on
        if pshape_kind == "scalar":
            pl = []
        elif pshape_kind == "labels":
            k = int(rng.integers(0, len(extra_letters) + 1))
            pl = list(rng.permutation(extra_letters)[:k])
        elif pshape_kind == "time":
            pl = [tl]
        else:
            pl = list(rng.permutation([tl] + extra_letters))
        pdims = [tdim if l == tl else U[l] for l in pl]
        pshape = tuple(len(d.items) for d in pdims)
        if pn in ("mean", "weibull_scale"):
            vals = rng.uniform(max(lo, 0.5 if solvable else 0.2), max(0.8 * span, lo + 1.0), size=pshape)
            if very_long:
                vals = vals * rng.uniform(8.0, 40.0)  # lifetimes far beyond the horizon: every survival share is next to one, outflows are tiny
            if solvable:
                vals = np.maximum(vals, 1.5 * float(dtv.max()))
            if model == "FixedLifetime" and rng.random() < 0.5:
                # exact ties between an age and the lifetime (integer / half-integer lifetimes): S(L) = 0 must hold exactly
                vals = np.maximum(np.round(vals * 2) / 2, 0.5)
        elif pn == "std":
            vals = rng.uniform(0.1, 0.8, size=pshape) if (solvable or rng.random() < 0.6) else rng.uniform(0.8, 1.6, size=pshape)  # relative, scaled below
            if very_long and rng.random() < 0.6:
                # ... and narrow: the horizon ends 5 to 9 standard deviations before the mean, so that the outflow shares are the far tail
                # of the distribution (1e-7 ... 1e-19): tiny, but not nothing once multiplied by a large throughput
                vals = np.full(pshape, 1.0) * (0.9 / float(rng.uniform(5.0, 9.0)))
        else:  # weibull_shape
            vals = rng.uniform(0.5, 5.0, size=pshape)
        if tl in pl and len(pl) > 1 and rng.random() < 0.3:
            # all labels share the first cohort's value and differ only for later cohorts
            ax = pl.index(tl)
            v0 = np.moveaxis(vals, ax, 0)
            v0[0, ...] = v0[0].flat[0]
        given[pn] = (pl, pdims, vals)
    # std relative to mean: make absolute using the broadcast mean
    full = {}
    for pn, (pl, pdims, vals) in given.items():
        full[pn] = broadcast_by_label(vals, pl, [tl] + extra_letters, shape)
    if "std" in full:
        full["std"] = full["std"] * full["mean"]
        pl, pdims, vals = given["std"]
        # the std handed to flodym must carry the same dims as given; recompute as array over (mean dims U std dims)
        ml = given["mean"][0]
        ul = [l for l in [tl] + extra_letters if l in set(pl) | set(ml)]
        ul = list(rng.permutation(ul)) if ul else []
        udims = [tdim if l == tl else U[l] for l in ul]
        given["std"] = (ul, udims, project_by_label(full["std"], [tl] + extra_letters, ul))
    cfg["truth"] = full
    cfg["given"] = given
    return cfg


def broadcast_by_label(vals, pl, all_letters, shape):
    """explicit loops: out[idx] = vals[idx restricted to pl]"""
    out = np.zeros(shape)
    pos = [all_letters.index(l) for l in pl]
    for idx in np.ndindex(*shape):
        out[idx] = vals[tuple(idx[p] for p in pos)] if pl else float(vals)
    return out


def project_by_label(full, all_letters, keep):
    """values of an array that is constant over the dropped dims, restricted to keep (in keep's order)"""
    shape = tuple(full.shape[all_letters.index(l)] for l in keep)
    out = np.zeros(shape)
    for idx in np.ndindex(*shape):
        sel = [0] * len(all_letters)
        for l, i in zip(keep, idx):
            sel[all_letters.index(l)] = i
        out[idx] = full[tuple(sel)]
    return out if keep else float(full.flat[0])


def build_lm(fd, cfg, dims=None, late=None):
    """late: a list; the model is then built WITHOUT parameters and the keyword arguments for a later set_prms are put into it"""
    cls = getattr(fd, cfg["model"])
    kw = {}
    form = cfg.get("param_form", "labelled")
    for pn, (pl, pdims, vals) in cfg["given"].items():
        if form in ("ndarray", "list"):
            full = np.array(cfg["truth"][pn], dtype=float)  # a plain array of the model's shape carries no labels: position = label
            if form == "ndarray" and cfg.get("prm_dtype") is not None:
                full = full.astype(cfg["prm_dtype"])
            kw[pn] = full if form == "ndarray" else full.tolist()
            if form == "ndarray" and isinstance(cfg.get("handed"), list):
                cfg["handed"].append(full)  # the very objects handed over (the caller may go on using its buffers)
        elif form in ("ndarray-keepdims", "list-keepdims"):
            # a plain array that numpy broadcasting expands to the model's shape: length-one axes where the parameter does not vary
            # (a column of cohort values for all labels, a row of label values for all cohorts), leading length-one axes left out or kept
            full = np.array(cfg["truth"][pn], dtype=float)
            for ax, l_ in enumerate([cfg["tl"]] + list(cfg["extra"])):
                if l_ not in pl:
                    full = np.take(full, [0], axis=ax)
            if (len(cfg["items"]) + len(pn)) % 2:
                while full.ndim and full.shape[0] == 1:
                    full = full[0]
            kw[pn] = (full if full.ndim else float(full)) if form == "ndarray-keepdims" else full.tolist()
        elif not pl:
            kw[pn] = float(np.asarray(vals))
        else:
            kw[pn] = fd.FlodymArray(dims=fd.DimensionSet(dim_list=list(pdims)), values=np.array(vals, dtype=float))
    if len(cfg["items"]) % 2 == 0:
        kw = dict(reversed(list(kw.items())))  # keyword arguments in the other order (std before mean, scale before shape)
    if late is not None:
        late.append(kw)
        kw = {}
    if cfg.get("settings_late"):
        # the settings are attributes of the model: given after construction (the only way for models that stocks build from a class)
        lm = cls(dims=dims if dims is not None else cfg["dims"], time_letter=cfg["tl"], **kw)
        lm.n_pts_per_interval = cfg["n_pts"]
        lm.inflow_at = cfg["inflow_at"]
        return lm
    return cls(dims=dims if dims is not None else cfg["dims"], time_letter=cfg["tl"], inflow_at=cfg["inflow_at"], n_pts_per_interval=cfg["n_pts"], **kw)


def driver_values(rng, shape, kind="positive"):
    if kind.startswith("scaled:"):
        # the same kinds at another order of magnitude (results are compared relatively, so magnitude must not matter)
        return driver_values(rng, shape, kind.split(":", 1)[1]) * 10.0 ** float(rng.integers(-12, 4))
    if kind == "collapse":
        # large early values, then a drop by ~15 orders of magnitude
        v = rng.uniform(1.0, 100.0, size=shape)
        k = max(1, shape[0] // 3)
        v[:k] *= 1e12
        v[k:] *= 1e-3
        return v
    if kind == "positive":
        v = rng.uniform(0.0, 100.0, size=shape)
        if v.size > 3 and rng.random() < 0.5:
            v.flat[rng.integers(0, v.size)] = 0.0
        return v
    if kind == "mixed":
        return rng.uniform(-50.0, 100.0, size=shape)
    if kind == "stock":
        if rng.random() < 0.15:
            return rng.integers(10, 1000, size=shape)  # whole-number stocks stored with an integer dtype
        return rng.uniform(10.0, 1000.0, size=shape)
    if kind == "growing":
        base = np.cumsum(rng.uniform(0.0, 50.0, size=shape), axis=0)
        return base + 10.0
    raise ValueError(kind)


@contextlib.contextmanager
def quiet():
    with contextlib.redirect_stdout(io.StringIO()):
        yield


def solvable(lm, thresh=0.05):
    try:
        return S.first_interval_survival(lm) >= thresh
    except Exception:
        return False


def make_solvable(fd, rng, tier, tries=8, **kw):
    for _ in range(tries):
        cfg = make_config(fd, rng, tier, solvable=True, **kw)
        lm = build_lm(fd, cfg)
        if solvable(lm):
            return cfg, lm
    return None, None


def make_stock(fd, cfg, cls_name, solver=None, lm=None, inflow=None, stock=None):
    cls = getattr(fd, cls_name)
    dims = cfg["dims"]
    kw = dict(dims=dims, time_letter=cfg["tl"], name="s")
    if cls_name != "SimpleFlowDrivenStock":
        kw["lifetime_model"] = lm if lm is not None else build_lm(fd, cfg)
    if cls_name == "StockDrivenDSM":
        kw["solver"] = solver or "manual"
    if inflow is not None:
        kw["inflow"] = fd.StockArray(dims=dims, values=_as_given(inflow, cfg.get("layout")))
    if stock is not None:
        kw["stock"] = fd.StockArray(dims=dims, values=_as_given(stock, cfg.get("layout")))
    if lm is None and cls_name != "SimpleFlowDrivenStock" and cfg["extra"] and (2 * len(cfg["items"]) + len(cfg["model"])) % 7 == 3 and len(cfg["items"]) <= 60:
        # look-alike offer: a lifetime model over the same letters whose labels stand in ANOTHER ORDER (parameters in that order).  The
        # stock may refuse it (then the ordinary one is built below); if it takes it, every label evolves with ITS parameters
        try:
            return cls(**dict(kw, lifetime_model=_lm_other_label_order(fd, cfg)))
        except Exception:
            pass
    if lm is None and cls_name != "SimpleFlowDrivenStock" and cfg.get("settings_late") and len(cfg["items"]) % 2 == 1:
        # the settings of the lifetime model are changed on the finished stock (stock.lifetime_model.inflow_at = ...), before anything
        # was computed: what counts is what the model holds when its tables are built
        cfg_first = dict(cfg, settings_late=False, inflow_at={"start": "middle", "middle": "end", "end": "start"}[cfg["inflow_at"]], n_pts=1 if cfg["n_pts"] > 1 else 3)
        kw["lifetime_model"] = build_lm(fd, cfg_first)
        s_ = cls(**kw) if cfg.get("layout", "C") == "C" or len(cfg["shape"]) < 2 else None
        if s_ is not None:
            s_.lifetime_model.inflow_at = cfg["inflow_at"]
            s_.lifetime_model.n_pts_per_interval = cfg["n_pts"]
            return s_
        kw["lifetime_model"] = build_lm(fd, cfg)
    if cfg.get("layout", "C") != "C" and len(cfg["shape"]) >= 2:
        # the arrays compute() is to fill are the user's own too (a first guess, a pre-allocated block): same memory layout as the data
        for q_ in ("stock", "inflow", "outflow"):
            if q_ not in kw and not (cls_name == "SimpleFlowDrivenStock" and q_ == "outflow"):
                kw[q_] = fd.StockArray(dims=dims, values=_as_given(np.full(cfg["shape"], 7.0), cfg["layout"]))
    provisional = lm is None and cls_name != "SimpleFlowDrivenStock" and (len(cfg["items"]) + 3 * len(cfg["model"])) % 11 == 0 and all(isinstance(q_, int) for q_ in cfg["items"])
    if provisional:
        # the time dimension still carries provisional labels (0, 1, 2, ...) while the stock and its lifetime model are declared; the
        # user writes the calendar years into that very Dimension object before anything is computed
        final_items = list(cfg["tdim"].items)
        cfg["tdim"].items[:] = list(range(len(final_items)))
        try:
            if "lifetime_model" not in kw or kw.get("lifetime_model") is None or isinstance(kw.get("lifetime_model"), type):
                pass
            kw["lifetime_model"] = build_lm(fd, cfg)
            s_prov = cls(**kw)
        finally:
            cfg["tdim"].items[:] = final_items
        return s_prov
    s_new = cls(**kw)
    if lm is None and cls_name != "SimpleFlowDrivenStock" and (len(cfg["items"]) + 2 * len(cfg["model"])) % 5 == 2:
        # look-alike offer: the stock's lifetime model is offered to a second stock whose time dimension has the same letter and length
        # but other years; whatever becomes of that offer (it is refused), the first stock computes on ITS years
        try:
            i0 = cfg["items"][0]
            tdim2 = fd.Dimension(letter=cfg["tl"], name=cfg["tdim"].name, items=[i0 + 2 * (x - i0) for x in cfg["items"]])
            dims2 = fd.DimensionSet(dim_list=[tdim2] + [cfg["U"][l] for l in cfg["extra"]])
            kw2 = dict(dims=dims2, time_letter=cfg["tl"], name="another stock", lifetime_model=s_new.lifetime_model)
            if cls_name == "StockDrivenDSM":
                kw2["solver"] = kw["solver"]
            cls(**kw2)
        except Exception:
            pass
    if lm is None and cfg.get("layout", "C") == "C":
        # the stock the user goes on with is sometimes a copy of the one that was built (a pickle round trip as after multiprocessing,
        # a deep copy as in a scenario loop): it is a stock of its own with the same data and settings
        how = (len(cfg["items"]) * 7 + len(cfg["model"])) % 9
        try:
            if how == 2:
                import pickle

                s_new = pickle.loads(pickle.dumps(s_new))
            elif how == 5:
                import copy

                s_new = copy.deepcopy(s_new)
            elif how == 7:
                s_new = s_new.model_copy(deep=True)
        except Exception:
            pass
    return s_new


def refused_then_corrected(hub, s, cfg, rng):
    """a compute() that the lifetime model refuses (parameters it cannot evaluate, a setting its table builder refuses) on an object
    that was computed before; the user catches that, corrects the cause, changes the driver and computes again.  The refused call is
    not judged (whatever it does, it is made while the monitors pause); the compute() after it is judged like any other"""
    lm = s.lifetime_model
    drv = s.stock if type(s).__name__ == "StockDrivenDSM" else s.inflow
    how = str(rng.choice(["parameters", "setting"]))
    old_n = lm.n_pts_per_interval
    with hub.pause():
        try:
            if how == "setting":
                lm.n_pts_per_interval = int(rng.choice([11, 14]))
            else:
                lm.set_prms(**{pn: -np.abs(np.array(v, dtype=float)) for pn, v in cfg["truth"].items()})
            with quiet():
                s.compute()
        except Exception:
            pass
        lm.n_pts_per_interval = old_n
    drv.values[...] = np.asarray(drv.values) * rng.uniform(0.5, 2.0, size=drv.values.shape) + (1.0 if drv.values.dtype.kind == "f" else 1)
    lm.set_prms(**{pn: np.array(v, dtype=float) * (1.2 if pn in ("mean", "weibull_scale") else 1.0) for pn, v in cfg["truth"].items()})
    with quiet():
        s.compute()
    return how


def _lm_other_label_order(fd, cfg):
    """a lifetime model over the letters of cfg's dims with the labels of one non-time dimension in another order; its parameters are
    plain arrays in THAT order, so that by label they are the parameters of cfg["truth"]"""
    l = cfg["extra"][0]
    ax = 1 + cfg["extra"].index(l)
    n = len(cfg["U"][l].items)
    perm = list(range(1, n)) + [0]
    d_p = fd.Dimension(letter=l, name=cfg["U"][l].name, items=[cfg["U"][l].items[j] for j in perm])
    dims_p = fd.DimensionSet(dim_list=[cfg["tdim"]] + [d_p if l_ == l else cfg["U"][l_] for l_ in cfg["extra"]])
    cfg_p = dict(cfg, param_form="ndarray", prm_dtype=None, truth={k: np.take(np.array(v, dtype=float), perm, axis=ax) for k, v in cfg["truth"].items()})
    cfg_p.pop("handed", None)
    return build_lm(fd, cfg_p, dims=dims_p)


def _as_given(v, layout=None):
    """driver values keep an integer dtype when the driver drew whole numbers on purpose; layout: how the user's data lie in memory
    (C order / Fortran order / stored with time LAST and handed over as a transposed view, as data read as (product, region, time))"""
    v = np.asarray(v)
    a = np.array(v, dtype=v.dtype if v.dtype.kind in "iu" else float, order="C")
    if a.ndim >= 2 and layout == "F":
        return np.asfortranarray(a)
    if a.ndim >= 2 and layout == "time-last":
        return np.transpose(np.ascontiguousarray(np.transpose(a, tuple(range(a.ndim - 1, -1, -1)))), tuple(range(a.ndim - 1, -1, -1)))
    return a


def allclose_scaled(a, b, tol, scale=None):
    a, b = np.asarray(a, dtype=float), np.asarray(b, dtype=float)
    if a.shape != b.shape:
        return False, float("inf")
    sc = scale if scale is not None else max(float(np.max(np.abs(a))) if a.size else 0.0, float(np.max(np.abs(b))) if b.size else 0.0, 1e-300)
    d = float(np.max(np.abs(a - b))) if a.size else 0.0
    return d <= tol * sc, d / sc


def same_with_gaps(a, b, tol):
    """like allclose_scaled, for results that may hold NaN / inf (degenerate parameters): non-finite entries must be the same
    non-finite entries at the same places, the finite ones agree relative to the largest finite magnitude"""
    a, b = np.asarray(a, dtype=float), np.asarray(b, dtype=float)
    if a.shape != b.shape:
        return False, float("inf")
    fa, fb = np.isfinite(a), np.isfinite(b)
    if not np.array_equal(fa, fb) or not np.array_equal(a[~fa], b[~fb], equal_nan=True):
        return False, float("nan")
    if not fa.any():
        return True, 0.0
    return allclose_scaled(a[fa], b[fb], tol)


# ---------------------------------------------------------------------------
# C10: inverse models / solvers

M10 = "inverse-and-solver-agreement"
EPS = float(np.finfo(float).eps)


def c10_wide_case(rec, hub, rng):
    """One LARGE configuration (75-95 years x 750-900 labels: survival and cohort tables of 4-8 million entries): the inflow-driven model
    and its stock-driven inverse agree in inflow, outflow and both cohort tables.  Kept to two live stocks (a few hundred MB) and run
    in one shard only."""
    import gc

    fd = hub.fd
    n_t, n_lab = int(rng.integers(75, 96)), int(rng.integers(750, 901))
    tdim = fd.Dimension(letter="t", name="time", items=[1900 + j for j in range(n_t)])
    ldim = fd.Dimension(letter="p", name="product", items=[f"p{int(q):04d}" for q in rng.permutation(n_lab)])
    dims = fd.DimensionSet(dim_list=[tdim, ldim])
    model = str(rng.choice(["NormalLifetime", "WeibullLifetime", "LogNormalLifetime"]))
    mean = rng.uniform(8.0, 40.0, size=(n_lab,))
    prms = {"mean": mean, "std": mean * rng.uniform(0.2, 0.5, size=(n_lab,))} if model != "WeibullLifetime" else {"weibull_shape": rng.uniform(1.0, 4.0, size=(n_lab,)), "weibull_scale": mean}
    x = rng.uniform(0.0, 100.0, size=(n_t, n_lab))
    solver = str(rng.choice(["manual", "lapack"]))
    with quiet():
        idm = fd.InflowDrivenDSM(dims=dims, time_letter="t", name="large", lifetime_model=getattr(fd, model)(dims=dims, time_letter="t", **{k: fd.FlodymArray(dims=dims["p",], values=v.copy()) for k, v in prms.items()}),
                                 inflow=fd.StockArray(dims=dims, values=x.copy()))
        idm.compute()
        sdm = fd.StockDrivenDSM(dims=dims, time_letter="t", name="large inverse", solver=solver, lifetime_model=getattr(fd, model)(dims=dims, time_letter="t", **{k: fd.FlodymArray(dims=dims["p",], values=v.copy()) for k, v in prms.items()}),
                                stock=fd.StockArray(dims=dims, values=np.array(idm.stock.values, dtype=float)))
        sdm.compute()
    with hub.pause():
        kappa = S.cond_estimate(sdm.lifetime_model)
    tol = 1e3 * n_t * EPS * max(kappa, 1.0)
    rec.event(M10, sig=f"large|{model}|{solver}|{n_t}x{n_lab}", cls=f"large tables ({n_t * n_t * n_lab // 1000000} million entries)|{solver}", sample={"model": model, "n_t": n_t, "labels": n_lab})
    if not np.isfinite(kappa) or kappa * n_t * EPS > 1e-7:
        rec.skip(M10, "ill-conditioned survival matrix (kappa*n*eps > 1e-7)")
    else:
        xs = max(float(np.max(np.abs(x))), 1e-300)
        for what, a_, b_, sc in (("inflow", sdm.inflow.values, x, xs), ("outflow", sdm.outflow.values, idm.outflow.values, xs),
                                 ("stock_by_cohort", sdm.get_stock_by_cohort(), idm.get_stock_by_cohort(), max(float(np.max(np.abs(idm.stock.values))), 1e-300)),
                                 ("outflow_by_cohort", sdm.get_outflow_by_cohort(), idm.get_outflow_by_cohort(), xs)):
            ok, rel = allclose_scaled(a_, b_, tol, sc)
            if not ok:
                rec.violation(M10, f"stock-driven-{what.replace('_', '-')}-differs:large-tables", dict(model=model, solver=solver, n_t=n_t, labels=n_lab, rel_diff=rel, tol=tol, kappa=kappa))
    del idm, sdm
    gc.collect()


def c10_case(rec, hub, rng, tier):
    fd = hub.fd
    cfg, lm = make_solvable(fd, rng, tier, very_long_p=0.2)  # every fifth configuration: survival shares next to one (a nearly unit diagonal)
    if cfg is None:
        rec.skip(M10, "no solvable configuration found")
        return
    nt = len(cfg["items"])
    with hub.pause():
        kappa = S.cond_estimate(lm)
    if not np.isfinite(kappa) or kappa * nt * EPS > 1e-7:
        rec.skip(M10, "ill-conditioned survival matrix (kappa*n*eps > 1e-7)")
        return
    tol = 1e3 * nt * EPS * kappa
    base = f"{cfg['model']}|{cfg['gclass']}|nt={nt}|rest={cfg['shape'][1:]}|{cfg['inflow_at']}|n={cfg['n_pts']}"

    def cmp(what, a, b, mech, scale=None, **w):
        ok, rel = allclose_scaled(a, b, tol, scale)
        rec.event(M10, sig=f"{what}|{base}", cls=f"{what}|{cfg['gclass']}", sample={"what": what, "model": cfg["model"], "time_items": cfg["items"][:10], "kappa": kappa})
        if not ok:
            rec.violation(M10, f"{mech}:{cfg['gclass']}-grid", dict(model=cfg["model"], time_items=cfg["items"][:12], rel_diff=rel, tol=tol, kappa=kappa, what=what, **w))

    with quiet():
        x = driver_values(rng, cfg["shape"], "positive" if rng.random() < 0.7 else "scaled:positive")
        idm = make_stock(fd, cfg, "InflowDrivenDSM", lm=lm, inflow=x)
        idm.compute()
        R = S.results_of(idm)
        if rng.random() < 0.3:
            # a shallow copy of the shared lifetime model, re-parameterised and used in between
            import copy as _copy

            lm_cp = lm.model_copy() if rng.random() < 0.5 else _copy.copy(lm)
            lm_cp.set_prms(**{pn: np.array(v) * (1.6 if pn in ("mean", "weibull_scale") else 1.0) for pn, v in cfg["truth"].items()})
            lm_cp.sf, lm_cp.pdf
        for solver in ("manual", "lapack"):
            for same in (False, True):
                sd = make_stock(fd, cfg, "StockDrivenDSM", solver=solver, lm=lm if same else build_lm(fd, cfg), stock=R["stock"])
                sd.compute()
                Q = S.results_of(sd)
                tag = f"ID->SD/{solver}/{'same-lm' if same else 'fresh-lm'}"
                cmp(tag + ":inflow", Q["inflow"], x, "stock-driven-does-not-return-the-inflow", scale=max(float(np.max(np.abs(x))), 1e-300))
                cmp(tag + ":outflow", Q["outflow"], R["outflow"], "stock-driven-outflow-differs", scale=max(float(np.max(np.abs(x))), 1e-300))
                cmp(tag + ":stock_by_cohort", Q["stock_by_cohort"], R["stock_by_cohort"], "stock-driven-stock-by-cohort-differs", scale=max(float(np.max(np.abs(R["stock"]))), 1e-300))
                cmp(tag + ":outflow_by_cohort", Q["outflow_by_cohort"], R["outflow_by_cohort"], "stock-driven-outflow-by-cohort-differs", scale=max(float(np.max(np.abs(x))), 1e-300))
        # the conversion helper: the inflow-driven model turned into a stock-driven one of the same lifetime model and settings
        idm_c = make_stock(fd, cfg, "InflowDrivenDSM", lm=build_lm(fd, cfg), inflow=x)
        idm_c.compute()
        Rc = S.results_of(idm_c)
        solver_c = str(rng.choice(["manual", "lapack"]))
        try:
            sd_c = idm_c.to_stock_type(fd.StockDrivenDSM, solver=solver_c)
            sd_c.inflow.values[...] = 0.0 if sd_c.inflow is not idm_c.inflow else sd_c.inflow.values  # where it has arrays of its own, they start empty
            sd_c.compute()
            Qc = S.results_of(sd_c)
            tag = f"ID->to_stock_type->SD/{solver_c}"
            cmp(tag + ":inflow", Qc["inflow"], x, "converted-stock-driven-model-does-not-return-the-inflow", scale=max(float(np.max(np.abs(x))), 1e-300))
            cmp(tag + ":outflow", Qc["outflow"], Rc["outflow"], "converted-stock-driven-outflow-differs", scale=max(float(np.max(np.abs(x))), 1e-300))
            cmp(tag + ":stock_by_cohort", Qc["stock_by_cohort"], Rc["stock_by_cohort"], "converted-stock-driven-stock-by-cohort-differs", scale=max(float(np.max(np.abs(Rc["stock"]))), 1e-300))
        except Exception as e:
            rec.violation(M10, "to_stock_type-or-compute-of-the-converted-model-raised", dict(model=cfg["model"], solver=solver_c, exc=repr(e)[:200]))
        # the same object once more, a previously non-zero year of its inflow now exactly zero: the stock-driven inverse still agrees
        if nt > 3:
            x2 = np.array(x, dtype=float)
            x2[int(rng.integers(1, nt - 1))] = 0.0
            idm.inflow.values[...] = x2
            idm.compute()
            R2 = S.results_of(idm)
            sd2 = make_stock(fd, cfg, "StockDrivenDSM", solver="manual", lm=build_lm(fd, cfg), stock=R2["stock"])
            sd2.compute()
            Q2 = S.results_of(sd2)
            xs2 = max(float(np.max(np.abs(x2))), 1e-300)
            cmp("recomputed-ID(zero year)->SD:outflow", Q2["outflow"], R2["outflow"], "recomputed-inflow-driven-outflow-differs-from-the-stock-driven-inverse", scale=xs2)
            cmp("recomputed-ID(zero year)->SD:outflow_by_cohort", Q2["outflow_by_cohort"], R2["outflow_by_cohort"], "recomputed-inflow-driven-cohort-outflow-differs-from-the-stock-driven-inverse", scale=xs2)
        # arbitrary stock -> inflow -> stock
        pres = driver_values(rng, cfg["shape"], str(rng.choice(["stock", "growing", "scaled:growing"])))
        res = {}
        for solver in ("manual", "lapack"):
            sd = make_stock(fd, cfg, "StockDrivenDSM", solver=solver, lm=build_lm(fd, cfg), stock=pres)
            sd.compute()
            res[solver] = S.results_of(sd)
            rec.event(M10, sig=f"driver-kept|{solver}|{base}", cls=f"prescribed-stock-kept|{solver}")
            if not np.array_equal(sd.stock.values, pres):
                rec.violation(M10, f"stock-driven-compute-overwrote-the-prescribed-stock:{solver}", dict(model=cfg["model"], time_items=cfg["items"][:12], solver=solver, extra_dims=list(cfg["extra"])))
            idm2 = make_stock(fd, cfg, "InflowDrivenDSM", lm=build_lm(fd, cfg), inflow=res[solver]["inflow"])
            idm2.compute()
            xs = max(float(np.max(np.abs(res[solver]["inflow"]))) * float(np.max(S.dt_of(cfg["items"]))), float(np.max(np.abs(pres))))
            cmp(f"SD/{solver}->ID:stock", idm2.stock.values, pres, "inflow-driven-does-not-reproduce-the-prescribed-stock", scale=xs,
                negative_inflow=bool(np.any(res[solver]["inflow"] < 0)))
        # the solver switched on a USED object: computed with one solver for another stock, then given the stock above and the other
        # solver - every result is that of a fresh object with that solver
        first_s, then_s = ("manual", "lapack") if rng.random() < 0.5 else ("lapack", "manual")
        try:
            sd_sw = make_stock(fd, cfg, "StockDrivenDSM", solver=first_s, lm=build_lm(fd, cfg), stock=np.asarray(pres, dtype=float) * rng.uniform(0.4, 1.6, size=cfg["shape"]) + 1.0)
            sd_sw.compute()
            sd_sw.stock.values[...] = pres
            sd_sw.solver = then_s
            sd_sw.compute()
            Qs = S.results_of(sd_sw)
            xs_sw = max(float(np.max(np.abs(res[then_s]["inflow"]))), 1e-300)
            for q_ in ("inflow", "outflow", "outflow_by_cohort"):
                cmp(f"solver-switched-on-a-used-object:{q_}", Qs[q_], res[then_s][q_], "used-object-with-the-solver-switched-differs-from-a-fresh-object", scale=xs_sw, quantity=q_, first_solver=first_s, then_solver=then_s)
            cmp("solver-switched-on-a-used-object:stock_by_cohort", Qs["stock_by_cohort"], res[then_s]["stock_by_cohort"], "used-object-with-the-solver-switched-differs-from-a-fresh-object", scale=max(float(np.max(np.abs(pres))), 1e-300),
                quantity="stock_by_cohort", first_solver=first_s, then_solver=then_s)
        except Exception as e:
            rec.violation(M10, "solver-switch-on-a-used-object-raised", dict(model=cfg["model"], exc=repr(e)[:200], first_solver=first_s, then_solver=then_s))
        # labels of very different magnitude side by side (tonnes of steel beside grams of a trace metal), stocks that also shrink:
        # every label is the inverse of its own inflow-driven run, judged on its OWN scale
        rest_n = int(np.prod(cfg["shape"][1:])) if len(cfg["shape"]) > 1 else 1
        if rest_n >= 2:
            mags = 10.0 ** rng.integers(-12, 1, size=cfg["shape"][1:]).astype(float)
            wob = rng.uniform(0.85, 1.3, size=cfg["shape"])
            pres2 = np.cumsum(rng.uniform(0.0, 1.0, size=cfg["shape"]), axis=0) * 0 + (10.0 + np.cumsum(rng.uniform(-0.6, 1.0, size=cfg["shape"]), axis=0).clip(-5, None)) * wob * mags
            for solver in ("manual", "lapack"):
                sdm = make_stock(fd, cfg, "StockDrivenDSM", solver=solver, lm=build_lm(fd, cfg), stock=pres2)
                sdm.compute()
                Rm = S.results_of(sdm)
                idm3 = make_stock(fd, cfg, "InflowDrivenDSM", lm=build_lm(fd, cfg), inflow=Rm["inflow"])
                idm3.compute()
                for idx in itertools.product(*[range(n_) for n_ in cfg["shape"][1:]]):
                    sl_ = (slice(None),) + idx
                    own = max(float(np.max(np.abs(Rm["inflow"][sl_]))) * float(np.max(S.dt_of(cfg["items"]))), float(np.max(np.abs(pres2[sl_]))), 1e-300)
                    cmp(f"SD/{solver}->ID:stock:per-label", idm3.stock.values[sl_], pres2[sl_], "inflow-driven-does-not-reproduce-the-prescribed-stock:label-on-its-own-scale", scale=own,
                        label_index=list(idx), label_magnitude=float(mags[idx]), negative_inflow=bool(np.any(Rm["inflow"][sl_] < 0)))
        # the same stock-driven object once more with another prescribed stock that is empty in its first years
        for solver in ("manual", "lapack"):
            sdr = make_stock(fd, cfg, "StockDrivenDSM", solver=solver, lm=build_lm(fd, cfg), stock=pres)
            sdr.compute()
            pres3 = np.array(pres, dtype=float)
            pres3[: int(rng.integers(1, max(2, nt // 2)))] = 0.0
            sdr.stock.values[...] = pres3
            sdr.compute()
            fresh3 = make_stock(fd, cfg, "StockDrivenDSM", solver=solver, lm=build_lm(fd, cfg), stock=pres3)
            fresh3.compute()
            A3, B3 = S.results_of(sdr), S.results_of(fresh3)
            s3 = max(float(np.max(np.abs(B3["inflow"]))), 1e-300)
            for k in ("inflow", "outflow"):
                cmp(f"SD/{solver}:recomputed-with-leading-empty-years:{k}", A3[k], B3[k], "recomputed-stock-driven-model-differs-from-a-fresh-one", scale=s3)
        sc = max(float(np.max(np.abs(res["manual"]["inflow"]))), 1e-300)
        for k in ("inflow", "outflow", "stock_by_cohort", "outflow_by_cohort"):
            cmp(f"manual==lapack:{k}", res["manual"][k], res["lapack"][k], "solvers-disagree",
                scale=sc * (float(np.max(S.dt_of(cfg["items"]))) if k == "stock_by_cohort" else 1.0))


# ---------------------------------------------------------------------------
# C16: causal, linear, label-independent, shift-invariant, impulse response

M16 = "dsm-structure"


def c16_case(rec, hub, rng, tier, which):
    fd = hub.fd
    cls_name, solver = [("InflowDrivenDSM", None), ("StockDrivenDSM", "manual"), ("StockDrivenDSM", "lapack")][which % 3]
    model = LM_NAMES[(which // 3) % 5]
    if cls_name == "StockDrivenDSM":
        cfg, lm0 = make_solvable(fd, rng, tier, model=model)
        if cfg is None:
            rec.skip(M16, "no solvable configuration found")
            return
        with hub.pause():
            kappa = S.cond_estimate(lm0)
        nt = len(cfg["items"])
        if not np.isfinite(kappa) or kappa * nt * EPS > 1e-7:
            rec.skip(M16, "ill-conditioned survival matrix")
            return
        tol = 1e3 * nt * EPS * kappa
        drive_attr, kind = "stock", "stock"
    else:
        cfg = make_config(fd, rng, tier, model=model)
        nt = len(cfg["items"])
        tol = 1e-12 * nt
        kappa = 1.0
        drive_attr, kind = "inflow", "positive"
    base = f"{cls_name}/{solver}|{cfg['model']}|{cfg['gclass']}|nt={nt}|rest={cfg['shape'][1:]}"
    dt = S.dt_of(cfg["items"])

    after_refusal = which % 4 == 1  # every object first goes through a compute() that is refused (and is then repaired by the user)

    def run(values, cfg_=None, lm=None):
        c = cfg_ or cfg
        s = make_stock(fd, c, cls_name, solver=solver, lm=lm, **{drive_attr: values})  # (lm None: make_stock builds the model itself)
        with quiet():
            if after_refusal:
                good = s.lifetime_model.n_pts_per_interval
                s.lifetime_model.n_pts_per_interval = 12
                try:
                    s.compute()
                except Exception:
                    pass
                s.lifetime_model.n_pts_per_interval = good
            s.compute()
        return S.results_of(s), s

    def scales(R):
        return {k: max(float(np.max(np.abs(v))), 1e-300) for k, v in R.items()}

    def cmp(what, A, B, mech, upto=None, sc=None, **w):
        rec.event(M16, sig=f"{what}|{base}", cls=f"{what}|{cls_name}{('/' + solver) if solver else ''}|{cfg['gclass']}",
                  sample={"what": what, "class": cls_name, "solver": solver, "model": cfg["model"], "time_items": cfg["items"][:10]})
        sc = sc or scales(A)
        for k in A:
            a, b = A[k], B[k]
            if upto is not None:
                a, b = a[: upto + 1], b[: upto + 1]
            ok, rel = allclose_scaled(a, b, tol, sc[k])
            if not ok:
                rec.violation(M16, f"{mech}:{cls_name}", dict(quantity=k, model=cfg["model"], solver=solver, time_items=cfg["items"][:12], rel_diff=rel, tol=tol, **w))
                return

    x = driver_values(rng, cfg["shape"], kind)
    y = driver_values(rng, cfg["shape"], kind)
    Rx, _ = run(x)
    Ry, _ = run(y)
    sc = {k: max(scales(Rx)[k], scales(Ry)[k]) for k in Rx}
    # causality: every truncation point
    ks = range(nt - 1) if nt <= 12 else sorted(set(rng.integers(0, nt - 1, size=10).tolist()))
    for k in ks:
        z = x.copy()
        z[k + 1 :] = y[k + 1 :] * float(rng.uniform(0.1, 3.0))
        Rz, _ = run(z)
        cmp("causal", Rx, Rz, "results-depend-on-later-driver-values", upto=k, sc=sc, truncation_index=int(k))
    # linearity
    for _ in range(2 if tier == "quick" else 4):
        a, b = float(rng.uniform(-2, 3)), float(rng.uniform(-2, 3))
        Rl, _ = run(a * x + b * y)
        comb = {k: a * Rx[k] + b * Ry[k] for k in Rx}
        lin_sc = {k: (abs(a) + abs(b)) * sc[k] for k in sc}
        old = tol
        cmp("linear", comb, Rl, "not-linear-in-the-driver", sc=lin_sc, alpha=a, beta=b)
    Rs, _ = run(2.5 * x)
    cmp("scaling", {k: 2.5 * v for k, v in Rx.items()}, Rs, "not-homogeneous-in-the-driver", sc={k: 2.5 * v for k, v in sc.items()})
    # calendar shift
    shift = int(rng.integers(-300, 300))
    cfg2 = dict(cfg)
    items2 = [it + shift for it in cfg["items"]]
    td2 = fd.Dimension(letter=cfg["tl"], name=cfg["tdim"].name, items=items2)
    cfg2["items"], cfg2["tdim"] = items2, td2
    cfg2["dims"] = fd.DimensionSet(dim_list=[td2] + [cfg["U"][l] for l in cfg["extra"]])
    cfg2["given"] = {pn: (pl, [td2 if d.letter == cfg["tl"] else d for d in pdims], vals) for pn, (pl, pdims, vals) in cfg["given"].items()}
    Rsh, _ = run(x, cfg2)
    cmp("shift", Rx, Rsh, "results-change-under-a-calendar-shift", sc=sc, shift=shift)
    # label independence: every label combination alone, with its own parameter slices
    rest = cfg["shape"][1:]
    if rest:
        combos = list(itertools.product(*[range(n) for n in rest]))
        if len(combos) > 6:
            combos = [combos[i] for i in sorted(rng.choice(len(combos), size=6, replace=False).tolist())]
        for idx in combos:
            cfg1 = dict(cfg)
            cfg1["dims"] = fd.DimensionSet(dim_list=[cfg["tdim"]])
            cfg1["shape"] = (nt,)
            cfg1["extra"] = []
            cfg1["given"] = {pn: ([cfg["tl"]], [cfg["tdim"]], cfg["truth"][pn][(slice(None),) + idx]) for pn in cfg["truth"]}
            R1, _ = run(x[(slice(None),) + idx], cfg1)
            sl = {}
            for k, v in Rx.items():
                sl[k] = v[(slice(None), slice(None)) + idx] if k.endswith("by_cohort") else v[(slice(None),) + idx]
            cmp("labels", sl, R1, "label-combination-evolves-differently-when-computed-alone", sc=sc, label_index=list(idx))
    # superposition from a basis: responses to ALL unit impulses of the time axis (one label column at a time) predict f(x)
    if nt <= 12:
        rest_shape = cfg["shape"][1:]
        basis = {}
        for c in range(nt):
            imp = np.zeros(cfg["shape"])
            imp[c] = 1.0
            basis[c], _ = run(imp)
        # f(x) for a driver with the same time profile in every label column = sum_c x[c] * f(e_c)
        prof = driver_values(rng, (nt,), kind)
        prof[int(rng.integers(0, nt))] = 0.0
        if nt > 3:
            prof[-1] = 0.0 if rng.random() < 0.5 else prof[-1]
        xx = np.zeros(cfg["shape"]) + prof.reshape((nt,) + (1,) * len(rest_shape))
        Rb, _ = run(xx)
        pred = {k: sum(prof[c] * basis[c][k] for c in range(nt)) for k in Rb}
        bsc = {k: max(float(np.max(np.abs(v))), float(np.max(np.abs(pred[k]))), 1e-300) for k, v in Rb.items()}
        cmp("impulse-basis", pred, Rb, "response-differs-from-the-superposition-of-unit-impulse-responses", sc=bsc)
    # the same laws on ONE object that is re-used and re-parameterised between runs (no state may leak between computes)
    if cls_name == "InflowDrivenDSM" and nt <= 12:
        live = make_stock(fd, cfg, cls_name, lm=build_lm(fd, cfg), inflow=x)
        with quiet():
            live.compute()
        if rng.random() < 0.4:
            # a shallow copy of the live model's lifetime model (model_copy() / copy.copy), re-parameterised and built in between:
            # the live stock, computed again, is what it was
            import copy as _copy

            lm_cp = live.lifetime_model.model_copy() if rng.random() < 0.5 else _copy.copy(live.lifetime_model)
            with quiet():
                lm_cp.set_prms(**{k: np.array(v) * (1.9 if k in ("mean", "weibull_scale") else 1.0) for k, v in cfg["truth"].items()})
                lm_cp.sf, lm_cp.pdf
                R_before = S.results_of(live)
                live.compute()
            R_after = S.results_of(live)
            rec.event(M16, sig=f"reused-object-shallow-copy|{base}", cls=f"reused-object|a shallow copy of its lifetime model was used in between|{cfg['gclass']}")
            for q in R_before:
                ok, rel = allclose_scaled(R_before[q], R_after[q], 1e-12)
                if not ok:
                    rec.violation(M16, "recomputed-stock-changed-after-a-shallow-copy-of-its-lifetime-model-was-used:InflowDrivenDSM", dict(quantity=q, model=cfg["model"], rel_diff=rel))
                    break
        if rng.random() < 0.5:
            # homogeneity at zero on an object that has been computed before: f(0) = 0 for every result, the cohort tables included
            live.inflow.values[...] = 0.0
            with quiet():
                live.compute()
            R0 = S.results_of(live)
            rec.event(M16, sig=f"reused-object-zero|{base}", cls=f"reused-object|zero-driver|{cfg['gclass']}")
            for q, v in R0.items():
                if np.any(v != 0):
                    rec.violation(M16, "zero-driver-on-a-used-object-leaves-non-zero-results:InflowDrivenDSM", dict(quantity=q, model=cfg["model"], max_abs=float(np.max(np.abs(v)))))
                    break
            live.inflow.values[...] = x
        new_truth = {k: np.array(v) * (1.3 if k in ("mean", "weibull_scale") else 1.0) for k, v in cfg["truth"].items()}
        with quiet():
            live.lifetime_model.set_prms(**{k: np.array(v) for k, v in new_truth.items()})
        with hub.pause():
            ref_lm = S.clone_lm(fd, live.lifetime_model, prms=new_truth)
            sf_new = np.asarray(ref_lm.sf, dtype=float)
        for c in sorted(set(rng.integers(0, nt, size=3).tolist())):
            imp = np.array(x, dtype=float)  # cohorts other than c keep their previous inflow bit-identical
            imp[c] = imp[c] + 1.0
            live.inflow.values[...] = imp
            with quiet():
                live.compute()
            exp_stock = np.einsum("c...,tc...->t...", imp * dt.reshape((nt,) + (1,) * (imp.ndim - 1)), sf_new)
            rec.event(M16, sig=f"reused-object|{base}", cls=f"reused-object|{cls_name}|{cfg['gclass']}")
            sc_ = max(float(np.max(np.abs(exp_stock))), 1e-300)
            if np.max(np.abs(live.stock.values - exp_stock)) > 1e-10 * sc_:
                rec.violation(M16, "reused-and-re-parameterised-object-does-not-follow-the-current-survival-table:InflowDrivenDSM",
                              dict(model=cfg["model"], cohort=int(c), time_items=cfg["items"][:12], rel_diff=float(np.max(np.abs(live.stock.values - exp_stock)) / sc_)))
                break
    # unit impulses (inflow-driven): stock = sf[:, c] * dt[c]
    if cls_name == "InflowDrivenDSM":
        lm = build_lm(fd, cfg)
        with hub.pause():
            sf = np.asarray(lm.sf, dtype=float)
        cs = range(nt) if nt <= 12 else sorted(set(rng.integers(0, nt, size=10).tolist()))
        for c in cs:
            imp = np.zeros(cfg["shape"])
            imp[c] = 1.0
            Ri, _ = run(imp)
            exp = sf[:, c] * dt[c]
            rec.event(M16, sig=f"impulse|{base}", cls=f"impulse|{cls_name}|{cfg['gclass']}")
            if np.max(np.abs(Ri["stock"] - exp)) > 1e-12 * max(1.0, float(np.max(dt))):
                rec.violation(M16, "impulse-response-differs-from-survival-column-times-interval-length", dict(model=cfg["model"], cohort=int(c), time_items=cfg["items"][:12],
                              worst=float(np.max(np.abs(Ri["stock"] - exp)))))
                break


# ---------------------------------------------------------------------------
# C17: recompute histories

M17 = "recompute-equals-fresh"


def new_truth(cfg, rng):
    """other parameter values of full shape (ground truth arrays)"""
    out = {}
    for pn, v in cfg["truth"].items():
        f = rng.uniform(0.6, 1.6, size=v.shape[1:] if rng.random() < 0.5 else v.shape)
        out[pn] = v * f
    return out


def c17_case(rec, hub, rng, tier, which):
    fd = hub.fd
    cls_name, solver = [("InflowDrivenDSM", None), ("StockDrivenDSM", "manual"), ("StockDrivenDSM", "lapack"), ("SimpleFlowDrivenStock", None)][which % 4]
    if cls_name == "StockDrivenDSM":
        cfg, lm = make_solvable(fd, rng, tier)
        if cfg is None:
            rec.skip(M17, "no solvable configuration found")
            return
        drive_attr, kind = "stock", "stock"
    else:
        cfg = make_config(fd, rng, tier)
        lm = build_lm(fd, cfg) if cls_name != "SimpleFlowDrivenStock" else None
        drive_attr, kind = "inflow", "positive"
    nt = len(cfg["items"])
    live = make_stock(fd, cfg, cls_name, solver=solver, lm=lm, **{drive_attr: driver_values(rng, cfg["shape"], kind)})
    if cls_name == "SimpleFlowDrivenStock":
        live.outflow.values[...] = driver_values(rng, cfg["shape"], "positive")
    hist = []
    length = int(rng.integers(4, 9 if tier == "quick" else 13))
    computed = False
    # what the model was last told (by label, full shape): the fresh twin is built from THIS, not from what the live object holds
    told = {k: np.array(v, dtype=float) for k, v in cfg["truth"].items()} if lm is not None else {}
    persistent = {}  # parameter objects kept by the "user", changed in place and passed again
    singular = False  # a re-parameterisation made one label unsolvable (stock-driven, fixed lifetime below half a period)
    base = f"{cls_name}/{solver}|{cfg['model'] if lm is not None else '-'}|{cfg['gclass']}|nt={nt}"
    for step in range(length):
        op = str(rng.choice(["driver", "set_prms", "compute", "read", "compute", "error"])) if step < length - 1 else "compute"
        if op == "set_prms" and lm is None:
            op = "driver"
        hist.append(op)
        with quiet():
            if op == "driver":
                getattr(live, drive_attr).values[...] = driver_values(rng, cfg["shape"], kind) if rng.random() < 0.8 else 0.0
                if cls_name == "SimpleFlowDrivenStock":
                    live.outflow.values[...] = driver_values(rng, cfg["shape"], "positive")
            elif op == "set_prms":
                nt_ = new_truth(cfg, rng)
                singular = False
                if cls_name == "StockDrivenDSM":
                    nt_ = {k: np.maximum(v, cfg["truth"][k]) if k in ("mean", "weibull_scale") else v for k, v in nt_.items()}
                    if cfg["model"] == "FixedLifetime" and len(cfg["shape"]) > 1 and rng.random() < 0.6:
                        # a lifetime so short for ONE label that nothing of it survives the period it enters: the stock holds no
                        # information about that label's inflow (singular system); whatever compute() does then, it does the same on a
                        # fresh object
                        m_ = np.array(nt_["mean"], dtype=float)
                        m_[(slice(None),) + tuple(n_ - 1 for n_ in cfg["shape"][1:])] = 0.2 * float(np.min(np.diff(np.array(cfg["items"], dtype=float))))
                        nt_ = dict(nt_, mean=m_)
                        singular = True
                kw = {}
                mode = rng.random() * (0.7 if persistent else 1.0)
                for pn, v in nt_.items():
                    if mode < 0.35:
                        # the same parameter object as last time, its values changed in place
                        if pn not in persistent:
                            persistent[pn] = (fd.Parameter(dims=cfg["dims"], values=np.array(v), name=pn) if rng.random() < 0.5 else fd.FlodymArray(dims=cfg["dims"], values=np.array(v))) if rng.random() < 0.75 else np.array(v)
                        obj = persistent[pn]
                        (obj.values if isinstance(obj, fd.FlodymArray) else obj)[...] = v
                        kw[pn] = obj
                    elif mode < 0.7:
                        kw[pn] = fd.FlodymArray(dims=cfg["dims"], values=np.array(v))
                    else:
                        kw[pn] = np.array(v)
                hist[-1] = "set_prms" + ("(same object)" if mode < 0.35 else "")
                if rng.random() < 0.5:
                    kw = dict(reversed(list(kw.items())))  # keyword arguments are given in any order
                live.lifetime_model.set_prms(**kw)
                told = {k: np.array(v, dtype=float) for k, v in nt_.items()}
            elif op == "error":
                # calls that must fail (and are caught by the user); nothing of them may stick
                bad_dim = fd.Dimension(letter="q", name="quux", items=["q1", "q2"])
                attempts = [lambda: getattr(live, drive_attr).__setitem__(Ellipsis, np.ones((2, 3, 4, 5, 6))), lambda: getattr(live, drive_attr).set_values(np.ones((1,)))]
                if lm is not None:
                    pn0 = list(cfg["truth"].keys())
                    attempts += [lambda: live.lifetime_model.set_prms(**{k_: fd.FlodymArray(dims=fd.DimensionSet(dim_list=[bad_dim]), values=np.array([1.0, 2.0])) for k_ in pn0}),
                                 lambda: live.lifetime_model.set_prms(), lambda: type(live)(dims=live.dims, lifetime_model=live.lifetime_model, time_letter="zz")]
                if lm is not None and len(cfg["truth"]) >= 2:
                    # a re-parameterisation of which only the LAST argument is unusable (an array over a foreign dimension / a value
                    # the model may refuse): the first ones are fine and new
                    good_new = {k_: np.array(v_) * 1.3 for k_, v_ in list(told.items())[:-1]}
                    last_k = list(told.keys())[-1]
                    deg_last = np.array(told[last_k], dtype=float)
                    if deg_last.size:
                        deg_last.reshape(-1)[int(rng.integers(0, deg_last.size))] = [0.0, np.nan, -1.0][int(rng.integers(0, 3))]
                    # ... or holds a degenerate entry (zero, NaN, negative) that the model may refuse or take as it is
                    cands = [fd.FlodymArray(dims=fd.DimensionSet(dim_list=[bad_dim]), values=np.array([1.0, 2.0])), "three years", deg_last]
                    # one or two of them per step, in any order and at any place among the other failing calls (a later call that
                    # happens to be accepted must not always come last and cover up what an earlier refused one left behind)
                    for ci in rng.permutation(3)[: int(rng.integers(1, 3))]:
                        attempts.append(lambda bl=cands[int(ci)]: live.lifetime_model.set_prms(**good_new, **{last_k: bl}))
                    attempts = [attempts[int(q_)] for q_ in rng.permutation(len(attempts))]
                for a_ in attempts:
                    try:
                        a_()
                    except Exception:
                        pass
                if lm is not None:
                    # whatever a refused (or accepted) call left in the model is what it HOLDS now; results must follow that
                    held = S.lm_state(live.lifetime_model)["prms"]
                    if all(v_ is not None for v_ in held.values()) and any(not np.array_equal(np.asarray(held[k_], dtype=float), told[k_]) for k_ in told):
                        told = {k_: np.array(held[k_], dtype=float) for k_ in told}
                        hist[-1] = "error(a refused set_prms left other parameters in the model)"
                if lm is not None and rng.random() < 0.6:
                    # a setting the table builder refuses, noticed by a failing read or compute and corrected by the user
                    good = live.lifetime_model.n_pts_per_interval
                    live.lifetime_model.n_pts_per_interval = int(rng.choice([11, 12, 40]))
                    hist[-1] = "error(table build refused, setting corrected)"
                    for a_ in rng.permutation(3)[: int(rng.integers(1, 4))]:
                        try:
                            (lambda: live.lifetime_model.pdf, lambda: live.lifetime_model.sf, live.compute)[int(a_)]()
                        except Exception:
                            pass
                    live.lifetime_model.n_pts_per_interval = good
            elif op == "read" and lm is not None:
                live.lifetime_model.sf
                live.lifetime_model.pdf
            elif op == "compute":
                degenerate = lm is not None and (singular or any(not np.all(np.isfinite(v_)) or np.any(np.asarray(v_) <= 0) for v_ in told.values()))
                live_exc = None
                try:
                    with np.errstate(all="ignore"):
                        live.compute()
                except Exception as e_:
                    if not degenerate:
                        raise
                    live_exc = e_  # the model holds a degenerate parameter (taken as it is by an earlier set_prms): compute may refuse
                computed = True
                # fresh twin from what the live object holds now
                with hub.pause():
                    twin_lm = S.clone_lm(fd, live.lifetime_model, prms=told) if lm is not None else None
                    twin = S.fresh_stock(fd, live, lm=twin_lm, **{drive_attr: getattr(live, drive_attr).values})
                    if cls_name == "SimpleFlowDrivenStock":
                        twin.outflow.values[...] = live.outflow.values
                    twin_exc = None
                    try:
                        with np.errstate(all="ignore"):
                            twin.compute()
                    except Exception as e_:
                        if not degenerate:
                            raise
                        twin_exc = e_
                if live_exc is not None or twin_exc is not None:
                    rec.event(M17, sig=f"{base}|refused-with-degenerate-parameters", cls=f"fresh-twin|{cls_name}|degenerate parameters refused")
                    if (live_exc is None) != (twin_exc is None):
                        rec.violation(M17, "compute-with-the-held-parameters-is-refused-on-one-of-live-object-and-fresh-object-only",
                                      dict(history=list(hist), live=repr(live_exc)[:120], fresh=repr(twin_exc)[:120], cls=cls_name, model=cfg["model"]))
                    # the user repairs the parameters before going on
                    singular = False
                    repaired = {k_: np.where(np.isfinite(v_) & (np.asarray(v_) > 0), v_, np.nanmax(np.where(np.isfinite(v_) & (np.asarray(v_) > 0), v_, np.nan))) for k_, v_ in told.items()}
                    repaired = {k_: (np.maximum(v_, cfg["truth"][k_]) if k_ in ("mean", "weibull_scale") and cls_name == "StockDrivenDSM" else v_) for k_, v_ in repaired.items()}
                    live.lifetime_model.set_prms(**{k_: np.array(v_) for k_, v_ in repaired.items()})
                    told = {k_: np.array(v_, dtype=float) for k_, v_ in repaired.items()}
                    hist.append("set_prms(repair)")
                    continue
                before = S.results_of(live)
                with hub.pause():
                    T = S.results_of(twin)
                    if lm is not None:
                        T["sf"] = np.asarray(twin.lifetime_model.sf, dtype=float)
                        T["pdf"] = np.asarray(twin.lifetime_model.pdf, dtype=float)
                        before["sf"] = np.asarray(live.lifetime_model.sf, dtype=float)
                        before["pdf"] = np.asarray(live.lifetime_model.pdf, dtype=float)
                rec.event(M17, sig=f"{base}|{'>'.join(hist[-4:])}", cls=f"fresh-twin|{cls_name}{('/' + solver) if solver else ''}|after={hist[-2] if len(hist) > 1 else 'init'}",
                          sample={"class": cls_name, "solver": solver, "history": list(hist)})
                for k in before:
                    ok, rel = same_with_gaps(before[k], T[k], 1e-12)
                    if not ok:
                        rec.violation(M17, f"recomputed-{('table' if k in ('sf', 'pdf') else 'result')}-differs-from-fresh-object:after-{_last_change(hist)}",
                                      dict(quantity=k, history=list(hist), rel_diff=rel, model=cfg["model"] if lm is not None else None, cls=cls_name))
                        break
                # compute twice in a row changes nothing
                with np.errstate(all="ignore"):
                    live.compute()
                again = S.results_of(live)
                rec.event(M17, sig=f"twice|{base}", cls=f"compute-twice|{cls_name}")
                for k in again:
                    if not np.array_equal(again[k], before[k], equal_nan=True):
                        ok, rel = allclose_scaled(again[k], before[k], 1e-13)
                        if not ok:
                            rec.violation(M17, "second-compute-in-a-row-changes-results", dict(quantity=k, history=list(hist), rel_diff=rel, cls=cls_name))
                            break


def sibling_grids_case(rec, hub, rng, tier, prop):
    """Two stocks in one process over the same labels whose time grids share first year, last year and length but cut the period
    differently, computed one after the other: each survival table is the one the declared distribution gives on ITS OWN grid (judged
    against the closed form - a fresh twin in the same process would share whatever the process remembers)"""
    fd = hub.fd
    n = int(rng.choice([4, 5, 6]))
    total = 10 * n
    grids = []
    while len(grids) < 2:
        cuts = sorted(int(q) for q in rng.choice(np.arange(1, total), size=n - 2, replace=False))
        g = [1960 + x for x in [0] + cuts + [total]]
        if g not in grids:
            grids.append(g)
    model = str(rng.choice(LM_NAMES))
    rdim = fd.Dimension(letter="r", name="region", items=["north", "south"])
    with_r = bool(rng.random() < 0.6)
    shape = (n, 2) if with_r else (n,)
    mean = rng.uniform(4.0, 35.0, size=shape)
    truth = {"mean": mean, "std": mean * rng.uniform(0.2, 0.5, size=shape)} if model != "WeibullLifetime" else {"weibull_shape": rng.uniform(0.8, 4.0, size=shape), "weibull_scale": mean}
    if model == "FixedLifetime":
        truth = {"mean": np.maximum(np.round(mean * 2) / 2, 0.5)}
    inflow_at, n_pts = str(rng.choice(["start", "middle", "end"])), int(rng.choice([1, 1, 2, 3]))
    for j, g in enumerate(grids):
        dims = fd.DimensionSet(dim_list=[fd.Dimension(letter="t", name="time", items=list(g))] + ([rdim] if with_r else []))
        lm = getattr(fd, model)(dims=dims, time_letter="t", inflow_at=inflow_at, n_pts_per_interval=n_pts, **{k: np.array(v) for k, v in truth.items()})
        s = fd.InflowDrivenDSM(dims=dims, time_letter="t", name=f"on grid {j}", lifetime_model=lm, inflow=fd.StockArray(dims=dims, values=rng.uniform(1.0, 50.0, size=shape)))
        with quiet():
            s.compute()
        with hub.pause():
            st = S.lm_state(lm)
            st["prms"] = {k: np.array(v, dtype=float) for k, v in truth.items()}
            S.check_tables(rec, st, np.asarray(lm.sf), np.asarray(lm.pdf), prop, where=f"stock number {j + 1} of two on sibling grids (same first year, last year and length)")


def two_objects_case(rec, hub, rng, tier, monitor, prop):
    """Two live stocks of the same class over the SAME dimensions, created with `lifetime_model=<class>` (or with instances), given
    different parameters and drivers, with their operations interleaved: each must come out as if it were alone in the process."""
    fd = hub.fd
    cfg, _lm0 = make_solvable(fd, rng, tier)
    if cfg is None:
        return
    cn, solver, attr, kind = [("InflowDrivenDSM", None, "inflow", "positive"), ("StockDrivenDSM", "manual", "stock", "stock"), ("StockDrivenDSM", "lapack", "stock", "stock")][int(rng.integers(0, 3))]
    by_class = bool(rng.random() < 0.6)
    lm_cls = getattr(fd, cfg["model"])
    objs = []
    for j in range(2):
        kw = dict(dims=cfg["dims"], time_letter=cfg["tl"], name=f"obj{j}")
        if cn == "StockDrivenDSM":
            kw["solver"] = solver
        kw["lifetime_model"] = lm_cls if by_class else lm_cls(dims=cfg["dims"], time_letter=cfg["tl"], inflow_at=cfg["inflow_at"], n_pts_per_interval=cfg["n_pts"])
        with quiet():
            o = getattr(fd, cn)(**kw)
        if by_class:
            o.lifetime_model.inflow_at, o.lifetime_model.n_pts_per_interval = cfg["inflow_at"], cfg["n_pts"]
        told = {k: np.array(v, dtype=float) * ((1.0 + 0.4 * j) if k in ("mean", "weibull_scale") else 1.0) for k, v in cfg["truth"].items()}
        objs.append(dict(obj=o, told=told, drive=driver_values(rng, cfg["shape"], kind), prepared=False))
    steps = [(j, w) for j in range(2) for w in ("prms", "driver")]
    steps = [steps[q] for q in rng.permutation(len(steps))] + [(int(q), "compute") for q in rng.permutation(2)]
    if rng.random() < 0.5:  # a second round with changed parameters for one of them, computes again in random order
        steps += [(int(rng.integers(0, 2)), "prms2")] + [(int(q), "compute") for q in rng.permutation(2)]
    base = f"{cn}/{solver}|{cfg['model']}|by_class={by_class}"
    for j, what in steps:
        e = objs[j]
        o = e["obj"]
        with quiet():
            if what in ("prms", "prms2"):
                if what == "prms2":
                    e["told"] = {k: v * (1.2 if k in ("mean", "weibull_scale") else 1.0) for k, v in e["told"].items()}
                o.lifetime_model.set_prms(**{k: np.array(v) for k, v in e["told"].items()})
            elif what == "driver":
                getattr(o, attr).values[...] = e["drive"]
            else:
                try:
                    o.compute()
                except Exception as ex:
                    rec.violation(monitor, "two-objects:compute-raised", {"exc": repr(ex)[:200], "class": cn, "by_class": by_class}, prop=prop)
                    return
                with hub.pause():
                    twin = getattr(fd, cn)(dims=cfg["dims"], time_letter=cfg["tl"], **({"solver": solver} if solver else {}),
                                           lifetime_model=lm_cls(dims=cfg["dims"], time_letter=cfg["tl"], inflow_at=cfg["inflow_at"], n_pts_per_interval=cfg["n_pts"], **{k: np.array(v) for k, v in e["told"].items()}),
                                           **{attr: fd.StockArray(dims=cfg["dims"], values=np.array(e["drive"], dtype=float))})
                    twin.compute()
                    A, B = S.results_of(o), S.results_of(twin)
                rec.event(monitor, sig=f"two-objects|{base}", cls=f"two-live-objects|{cn}{('/' + solver) if solver else ''}|{'class' if by_class else 'instance'}")
                for q in A:
                    if np.any(~np.isfinite(A[q])) or np.any(~np.isfinite(B[q])):
                        continue
                    ok, rel = allclose_scaled(A[q], B[q], 1e-10)
                    if not ok:
                        rec.violation(monitor, f"stock-differs-from-the-same-stock-alone-while-another-stock-of-its-shape-is-alive:{cn}", dict(quantity=q, rel_diff=rel, model=cfg["model"], lifetime_model_given_as="class" if by_class else "instance", steps=[f"{a}:{b}" for a, b in steps]), prop=prop)
                        return


def c17_user_model_case(rec, hub, rng, tier):
    """A lifetime model written by the user: a subclass of a shipped model with one more parameter (a delay before anything can
    leave), set the natural way (base parameters through super().set_prms, then its own).  Re-parameterised and recomputed stocks
    must equal fresh ones - also when ONLY the user's own parameter changed."""
    fd = hub.fd
    from typing import Any

    base_name = ["NormalLifetime", "WeibullLifetime", "LogNormalLifetime", "FoldedNormalLifetime", "FixedLifetime"][int(rng.integers(0, 5))]
    base_cls = getattr(fd, base_name)
    names = S.SURVIVAL[base_name][0]

    class Delayed(base_cls):
        delay: Any = None

        @property
        def prms(self):
            return {**super().prms, "delay": self.delay}

        def set_prms(self, delay, **kw):
            super().set_prms(**kw)
            self.delay = self.cast_any_to_np_array(delay)

        def _survival_by_year_id(self, t, m):
            return super()._survival_by_year_id(np.maximum(t - self.delay[m, ...], 0.0), m)

    items, gclass = time_grid(rng, tier, None)
    items = items[:10]
    tdim = fd.Dimension(letter="t", name="time", items=list(items))
    rdim = fd.Dimension(letter="r", name="region", items=["EUR", "USA"], dtype=str)
    dims = fd.DimensionSet(dim_list=[tdim, rdim] if rng.random() < 0.6 else [tdim])
    span = float(items[-1] - items[0])

    def draw():
        mean = float(rng.uniform(0.2, 0.6) * span + 1.0)
        p = {"mean": mean, "std": mean * float(rng.uniform(0.2, 0.5)), "weibull_shape": float(rng.uniform(1.2, 3.0)), "weibull_scale": mean}
        return {k: p[k] for k in names}

    def build(prms, delay, inflow):
        lm = Delayed(dims=dims, time_letter="t")
        lm.set_prms(delay=delay, **prms)
        st = fd.InflowDrivenDSM(dims=dims, lifetime_model=lm, time_letter="t", inflow=fd.StockArray(dims=dims, values=np.array(inflow)))
        st.compute()
        return st

    inflow = rng.uniform(1.0, 50.0, size=dims.shape)
    prms, delay = draw(), 0.0
    try:
        with quiet():
            live = build(prms, delay, inflow)
    except Exception as e:
        rec.skip(M17, f"user-written lifetime model could not be built: {type(e).__name__}")
        return
    for step in range(int(rng.integers(2, 5))):
        what = str(rng.choice(["delay-only", "all", "base-only"]))
        if what in ("delay-only", "all"):
            delay = float(rng.uniform(0.0, 0.4) * span)
        if what in ("base-only", "all"):
            prms = draw()
        with quiet():
            live.lifetime_model.set_prms(delay=delay, **prms)
            if rng.random() < 0.3:
                live.lifetime_model.sf
            live.compute()
            with hub.pause():
                fresh = build(prms, delay, inflow)
                A, B = S.results_of(live), S.results_of(fresh)
        rec.event(M17, sig=f"user-model|{base_name}|{what}|{gclass}", cls=f"user-written-lifetime-model|{base_name}|changed={what}")
        for q in A:
            ok, rel = allclose_scaled(A[q], B[q], 1e-12)
            if not ok:
                rec.violation(M17, f"recomputed-result-differs-from-fresh-object:user-written-lifetime-model:{what}", dict(quantity=q, base_model=base_name, changed=what, rel_diff=rel, time_items=items))
                return


def one_label_degenerate_case(rec, hub, rng, tier):
    """A stock-driven model (forward substitution) over several labels of which ONE cannot be solved - nothing of that product survives
    the period it enters (fixed lifetime below half an interval), so its own inflow is undetermined (inf / NaN).  Every OTHER label
    must come out exactly as if it had been computed alone."""
    fd = hub.fd
    items, gclass = time_grid(rng, tier, str(rng.choice(["unit", "const2", "uneven", "howto"])))
    items = items[:9]
    nt = len(items)
    tdim = fd.Dimension(letter="t", name="time", items=list(items))
    labels = ["car", "packaging", "bicycle", "ship"][: int(rng.integers(2, 5))]
    pdim = fd.Dimension(letter="p", name="product", items=labels, dtype=str)
    dims = fd.DimensionSet(dim_list=[tdim, pdim])
    dtv = np.diff(np.array(items, dtype=float))
    bad = int(rng.integers(0, len(labels)))
    mean = rng.uniform(1.5, 4.0, size=len(labels)) * float(dtv.max())
    mean[bad] = 0.2 * float(dtv.min())
    stock = np.cumsum(rng.uniform(1.0, 20.0, size=dims.shape), axis=0) + 10.0
    joint = fd.StockDrivenDSM(dims=dims, stock=fd.StockArray(dims=dims, values=stock.copy()), lifetime_model=fd.FixedLifetime(dims=dims, time_letter="t", mean=fd.FlodymArray(dims=dims[("p",)], values=mean.copy())), solver="manual", time_letter="t")
    with quiet(), np.errstate(all="ignore"):
        try:
            joint.compute()
        except Exception as e:
            rec.skip(M16, f"joint compute with one unsolvable label raised: {type(e).__name__}")
            return
        J = S.results_of(joint)
        for j, lab in enumerate(labels):
            if j == bad:
                continue
            d1 = fd.DimensionSet(dim_list=[tdim])
            with hub.pause():
                alone = fd.StockDrivenDSM(dims=d1, stock=fd.StockArray(dims=d1, values=stock[:, j].copy()), lifetime_model=fd.FixedLifetime(dims=d1, time_letter="t", mean=float(mean[j])), solver="manual", time_letter="t")
                alone.compute()
                A = S.results_of(alone)
            rec.event(M16, sig=f"one-label-degenerate|{gclass}|nt={nt}|n={len(labels)}", cls=f"labels|one unsolvable label beside normal ones|{gclass}")
            for q in A:
                a = J[q][(slice(None), slice(None), j)] if q.endswith("by_cohort") else J[q][:, j]
                if np.any(~np.isfinite(A[q])):
                    continue
                ok, rel = allclose_scaled(a, A[q], 1e-9)
                if not ok or np.any(~np.isfinite(a)):
                    rec.violation(M16, "label-beside-an-unsolvable-label-evolves-differently-when-computed-alone:StockDrivenDSM", dict(quantity=q, label=lab, unsolvable_label=labels[bad], rel_diff=rel, time_items=items))
                    return


def c17_singular_case(rec, hub, rng, tier):
    """A stock-driven model that has been computed is re-parameterised so that ONE label becomes unsolvable (nothing of it survives the
    period it enters), then computed again: whatever compute() does then - refuse, or carry on with the other labels - it does exactly
    what it does on a freshly built stock holding the same stock and parameters."""
    fd = hub.fd
    items, gclass = time_grid(rng, tier, str(rng.choice(["unit", "const2", "uneven", "howto"])))
    items = items[:9]
    tdim = fd.Dimension(letter="t", name="time", items=list(items))
    labels = ["car", "packaging", "bicycle"][: int(rng.integers(2, 4))]
    pdim = fd.Dimension(letter="p", name="product", items=labels, dtype=str)
    dims = fd.DimensionSet(dim_list=[tdim, pdim])
    dtv = np.diff(np.array(items, dtype=float))
    solver = str(rng.choice(["lapack", "manual"]))
    inflow_at = str(rng.choice(["start", "middle"]))
    mean0 = rng.uniform(1.5, 4.0, size=len(labels)) * float(dtv.max())
    stock = np.cumsum(rng.uniform(1.0, 20.0, size=dims.shape), axis=0) + 10.0

    def build(mean):
        return fd.StockDrivenDSM(dims=dims, stock=fd.StockArray(dims=dims, values=stock.copy()), solver=solver, time_letter="t",
                                 lifetime_model=fd.FixedLifetime(dims=dims, time_letter="t", inflow_at=inflow_at, mean=fd.FlodymArray(dims=dims[("p",)], values=np.array(mean))))

    live = build(mean0)
    with quiet(), np.errstate(all="ignore"):
        live.compute()
        mean1 = mean0.copy()
        mean1[int(rng.integers(0, len(labels)))] = 0.2 * float(dtv.min())
        live.lifetime_model.set_prms(mean=fd.FlodymArray(dims=dims[("p",)], values=mean1.copy()))
        exc_live = exc_fresh = None
        try:
            live.compute()
        except Exception as e:
            exc_live = e
        with hub.pause():
            fresh = build(mean1)
            try:
                fresh.compute()
            except Exception as e:
                exc_fresh = e
    rec.event(M17, sig=f"singular-label|{solver}|{inflow_at}|{gclass}", cls=f"fresh-twin|StockDrivenDSM/{solver}|one label made unsolvable")
    if (exc_live is None) != (exc_fresh is None):
        rec.violation(M17, "compute-with-the-held-parameters-is-refused-on-one-of-live-object-and-fresh-object-only", dict(live=repr(exc_live)[:120], fresh=repr(exc_fresh)[:120], solver=solver, cls="StockDrivenDSM", model="FixedLifetime"))
        return
    if exc_live is not None:
        return
    A, B = S.results_of(live), S.results_of(fresh)
    for q in A:
        ok, rel = same_with_gaps(A[q], B[q], 1e-10)
        if not ok:
            rec.violation(M17, "recomputed-result-differs-from-fresh-object:after-a-label-became-unsolvable", dict(quantity=q, solver=solver, rel_diff=rel, time_items=items))
            return


def lm_time_not_first_case(rec, hub, rng, tier):
    """A lifetime model declared over (region, time) - time not first - with per-region parameters, handed to a stock over (time,
    region) of equal lengths: the stock refuses it, or - if a library accepts such a model - every region still evolves with ITS OWN
    lifetime, as if computed alone."""
    fd = hub.fd
    n = int(rng.integers(3, 7))
    tdim = fd.Dimension(letter="t", name="time", items=[2000 + j for j in range(n)])
    rdim = fd.Dimension(letter="r", name="region", items=[f"r{j}" for j in range(n)], dtype=str)
    mean = rng.uniform(1.0, 6.0, size=n)
    model = str(rng.choice(["NormalLifetime", "FixedLifetime", "LogNormalLifetime"]))
    kw = dict(mean=fd.FlodymArray(dims=fd.DimensionSet(dim_list=[rdim]), values=mean.copy()))
    if model != "FixedLifetime":
        kw["std"] = fd.FlodymArray(dims=fd.DimensionSet(dim_list=[rdim]), values=mean * 0.3)
    inflow = rng.uniform(1.0, 50.0, size=(n, n))
    rec.event(M16, sig=f"lm-time-not-first|{model}|n={n}", cls=f"labels|lifetime model declared with time not first|{model}")
    try:
        with quiet():
            lm = getattr(fd, model)(dims=fd.DimensionSet(dim_list=[rdim, tdim]), time_letter="t", **kw)
            dims = fd.DimensionSet(dim_list=[tdim, rdim])
            st = fd.InflowDrivenDSM(dims=dims, inflow=fd.StockArray(dims=dims, values=inflow.copy()), lifetime_model=lm, time_letter="t")
            st.compute()
    except Exception:
        return  # refused somewhere: fine
    J = S.results_of(st)
    d1 = fd.DimensionSet(dim_list=[tdim])
    for j in range(n):
        with hub.pause(), quiet():
            kw1 = dict(mean=float(mean[j]))
            if model != "FixedLifetime":
                kw1["std"] = float(mean[j] * 0.3)
            alone = fd.InflowDrivenDSM(dims=d1, inflow=fd.StockArray(dims=d1, values=inflow[:, j].copy()), lifetime_model=getattr(fd, model)(dims=d1, time_letter="t", **kw1), time_letter="t")
            alone.compute()
            A = S.results_of(alone)
        for q in ("stock", "outflow"):
            ok, rel = allclose_scaled(J[q][:, j], A[q], 1e-10)
            if not ok:
                rec.violation(M16, "label-evolves-with-another-label's-lifetime:model-declared-with-time-not-first", dict(quantity=q, region=j, model=model, rel_diff=rel, n=n))
                return


def c17_first_prms_dtype_case(rec, hub, rng, tier):
    """The first parameters of a lifetime model come as arrays of whole numbers or of half / single precision; later ones are
    ordinary fractional numbers.  The recomputed stock is that of a fresh stock with the later parameters."""
    fd = hub.fd
    items, gclass = time_grid(rng, tier, None)
    items = items[:10]
    tdim = fd.Dimension(letter="t", name="time", items=list(items))
    rdim = fd.Dimension(letter="r", name="region", items=["EUR", "USA", "CHN"][: int(rng.integers(1, 4))], dtype=str)
    dims = fd.DimensionSet(dim_list=[tdim, rdim])
    model = str(rng.choice(["NormalLifetime", "LogNormalLifetime", "FoldedNormalLifetime", "WeibullLifetime", "FixedLifetime"]))
    names = S.SURVIVAL[model][0]
    span = float(items[-1] - items[0]) + 1.0
    dt_ = [np.int64, np.int32, np.float32, np.float16][int(rng.integers(0, 4))]
    first = {k: np.round(rng.uniform(2.0, max(3.0, 0.5 * span), size=dims.shape)).astype(dt_) if k in ("mean", "weibull_scale") else np.full(dims.shape, 2).astype(dt_) for k in names}
    later = {k: rng.uniform(2.0, max(3.0, 0.5 * span), size=dims.shape) + 0.37 if k in ("mean", "weibull_scale") else rng.uniform(0.6, 1.9, size=dims.shape) for k in names}
    form = int(rng.integers(0, 3))
    wrap = (lambda v, k: fd.FlodymArray(dims=dims, values=v)) if form == 0 else (lambda v, k: fd.Parameter(dims=dims, values=v, name=k)) if form == 1 else (lambda v, k: v)
    inflow = rng.uniform(1.0, 50.0, size=dims.shape)

    late = bool(rng.random() < 0.6)  # the stock is declared with the model CLASS and gets its first parameters through set_prms

    def build(prms, wrapped):
        given = {k: (wrap(v, k) if wrapped else np.array(v, dtype=float)) for k, v in prms.items()}
        if late and wrapped:
            st = fd.InflowDrivenDSM(dims=dims, inflow=fd.StockArray(dims=dims, values=inflow.copy()), lifetime_model=getattr(fd, model), time_letter="t")
            st.lifetime_model.set_prms(**given)
            return st
        lm = getattr(fd, model)(dims=dims, time_letter="t", **given)
        return fd.InflowDrivenDSM(dims=dims, inflow=fd.StockArray(dims=dims, values=inflow.copy()), lifetime_model=lm, time_letter="t")

    rec.event(M17, sig=f"first-prms-dtype|{model}|{np.dtype(dt_).name}|{form}", cls=f"fresh-twin|first parameters in {np.dtype(dt_).name}|{model}")
    try:
        with quiet(), np.errstate(all="ignore"):
            live = build(first, True)
            live.compute()
            live.lifetime_model.set_prms(**{k: np.array(v) for k, v in later.items()})
            live.compute()
            with hub.pause():
                fresh = build(later, False)
                fresh.compute()
    except Exception as e:
        rec.violation(M17, "compute-raised-after-first-parameters-in-a-narrow-dtype", dict(model=model, dtype=np.dtype(dt_).name, exc=repr(e)[:200]))
        return
    A, B = S.results_of(live), S.results_of(fresh)
    for q in A:
        ok, rel = same_with_gaps(A[q], B[q], 1e-12)
        if not ok:
            rec.violation(M17, "recomputed-result-differs-from-fresh-object:first-parameters-were-given-in-a-narrow-dtype", dict(quantity=q, model=model, dtype=np.dtype(dt_).name, given_as=["FlodymArray", "Parameter", "ndarray"][form], rel_diff=rel))
            return


def _last_change(hist):
    for op in reversed(hist[:-1]):
        if op.startswith("set_prms") or op == "driver":
            return op.split("(")[0]
    return "nothing"


# ---------------------------------------------------------------------------
# C17, second sentence: stocks built from definitions inside a system whose compute() runs in a scenario loop

M17S = "scenario-loop-equals-fresh-system"


def c17_system_case(rec, hub, rng, tier, i):
    fd = hub.fd
    items, gclass = time_grid(rng, tier, None)
    items = items[: min(len(items), 9)]
    if len(items) < 3:
        items = [2000, 2001, 2002, 2003]
    tdim = fd.Dimension(letter="t", name="time", items=list(items))
    rdim = fd.Dimension(letter="r", name="region", items=["EUR", "USA", "CHN"][: int(rng.integers(1, 4))], dtype=str)
    dims = fd.DimensionSet(dim_list=[tdim, rdim])
    dtv = np.diff(np.array(items, dtype=float))
    classes = [("InflowDrivenDSM", None), ("StockDrivenDSM", "manual"), ("StockDrivenDSM", "lapack"), ("SimpleFlowDrivenStock", None)]
    lms = ["NormalLifetime", "LogNormalLifetime", "FoldedNormalLifetime", "WeibullLifetime", "FixedLifetime"]
    n_st = int(rng.integers(1, 4))
    sdefs = []
    for k in range(n_st):
        cn, solver = classes[int(rng.integers(0, len(classes)))]
        lm = None if cn == "SimpleFlowDrivenStock" else lms[int(rng.integers(0, len(lms)))]
        sdefs.append(dict(name=f"stock{k}", cls=cn, solver=solver, lm=lm))

    full_mean = bool(rng.random() < 0.5)

    def definitions():
        out = []
        for sd in sdefs:
            kw = dict(name=sd["name"], process_name="use", dim_letters=("t", "r"), subclass=getattr(fd, sd["cls"]))
            if sd["lm"]:
                kw["lifetime_model_class"] = getattr(fd, sd["lm"])
            if sd["solver"]:
                kw["solver"] = sd["solver"]
            out.append(fd.StockDefinition(**kw))
        return out

    all_first = bool(rng.random() < 0.4)  # the user's compute() first prepares ALL stocks (drivers, parameters), then computes them one after the other
    own = float(rng.random() < 0.6)
    own_factor = {sd["name"]: 1.0 + 0.25 * k_ * own for k_, sd in enumerate(sdefs)}  # each stock its own lifetimes (most cases)
    if rng.random() < 0.35 and len(sdefs) >= 2 and sdefs[0]["lm"]:
        sdefs[1] = dict(sdefs[0], name=sdefs[1]["name"])  # two stocks of the same class, model class and dimensions

    def prms_for(s, name, P):
        lmn = type(s.lifetime_model).__name__
        mean = P["mean"] * own_factor[name]
        if lmn == "WeibullLifetime":
            return dict(weibull_shape=P["spread"] * 4.0 + 0.8, weibull_scale=mean)
        if lmn == "FixedLifetime":
            return dict(mean=mean)
        return dict(mean=mean, std=mean * P["spread"])

    class LoopMFA(fd.MFASystem):
        def compute(self):
            def prepare(name, s):
                if isinstance(s, fd.StockDrivenDSM):
                    s.stock[...] = self.parameters["drive"] * 10.0
                else:
                    s.inflow[...] = self.parameters["drive"]
                if hasattr(s, "lifetime_model"):
                    s.lifetime_model.set_prms(**prms_for(s, name, self.parameters))

            if all_first:
                for name, s in self.stocks.items():
                    prepare(name, s)
                for name, s in self.stocks.items():
                    s.compute()
            else:
                for name, s in self.stocks.items():
                    prepare(name, s)
                    s.compute()

    def build(values):
        processes = fd.make_processes(["sysenv", "use"])
        stocks = fd.make_empty_stocks(stock_definitions=definitions(), processes=processes, dims=dims)
        params = {
            "drive": fd.Parameter(dims=dims, values=values["drive"].copy(), name="drive"),
            "mean": fd.Parameter(dims=dims if full_mean else dims[("r",)], values=(np.tile(values["mean"], (len(items), 1)) if full_mean else values["mean"]).copy(), name="mean"),
            "spread": fd.Parameter(dims=fd.DimensionSet(dim_list=[]), values=np.array(values["spread"]), name="spread"),
        }
        return LoopMFA(dims=dims, parameters=params, processes=processes, flows={}, stocks=stocks)

    def scenario():
        return {"drive": rng.uniform(1.0, 100.0, size=dims.shape) if rng.random() < 0.85 else np.zeros(dims.shape),
                "mean": rng.uniform(1.5 * float(dtv.max()), 3.0 * float(dtv.max()) + 5.0, size=(len(rdim.items),)), "spread": float(rng.uniform(0.15, 0.6))}

    live = build(scenario())
    n_sc = 5
    mean_shape = (len(items), len(rdim.items)) if full_mean else (len(rdim.items),)
    for k in range(n_sc):
        sc = scenario()
        with quiet():
            live.parameters["drive"][...] = sc["drive"]
            live.parameters["mean"][...] = np.tile(sc["mean"], (len(items), 1)) if full_mean else sc["mean"]
            live.parameters["spread"][...] = sc["spread"]
            try:
                live.compute()
                if rng.random() < 0.3:
                    live.compute()
            except Exception as e:
                rec.violation(M17S, "scenario-loop-compute-raised", {"exc": f"{type(e).__name__}: {str(e)[:200]}", "scenario": k, "stocks": sdefs})
                return
            with hub.pause():
                fresh = build(sc)
                fresh.compute()
                # and each stock on its own, outside any system: built directly, with its own lifetime-model object
                alone = {}
                for sd in sdefs:
                    ls_ = live.stocks[sd["name"]]
                    kw_ = dict(dims=dims, time_letter="t")
                    if sd["lm"]:
                        kw_["lifetime_model"] = getattr(fd, sd["lm"])(dims=dims, time_letter="t", **{k_: (v_.values.copy() if isinstance(v_, fd.FlodymArray) else v_) for k_, v_ in ((k2, (v2 if not isinstance(v2, fd.FlodymArray) else v2.cast_to(dims))) for k2, v2 in prms_for(ls_, sd["name"], live.parameters).items())})
                    if sd["solver"]:
                        kw_["solver"] = sd["solver"]
                    if sd["cls"] == "StockDrivenDSM":
                        kw_["stock"] = fd.StockArray(dims=dims, values=sc["drive"] * 10.0)
                    else:
                        kw_["inflow"] = fd.StockArray(dims=dims, values=sc["drive"].copy())
                    one_ = getattr(fd, sd["cls"])(**kw_)
                    one_.compute()
                    alone[sd["name"]] = S.results_of(one_)
        for sd in sdefs:
            a0 = S.results_of(live.stocks[sd["name"]])
            rec.event(M17S, sig=f"alone|{sd['cls']}/{sd['solver']}|{sd['lm']}|all_first={all_first}", cls=f"scenario-vs-stock-alone|{sd['cls']}|{'prepare-all-then-compute' if all_first else 'one-by-one'}")
            for q in a0:
                if np.any(~np.isfinite(a0[q])) or np.any(~np.isfinite(alone[sd["name"]][q])):
                    continue
                ok, rel = allclose_scaled(a0[q], alone[sd["name"]][q], 1e-11)
                if not ok:
                    rec.violation(M17S, f"stock-in-a-system-differs-from-the-same-stock-computed-alone:{sd['cls']}", dict(quantity=q, scenario=k, stock=sd, rel_diff=rel, prepare_all_first=all_first, n_stocks=len(sdefs)))
                    break
        for sd in sdefs:
            a, b = S.results_of(live.stocks[sd["name"]]), S.results_of(fresh.stocks[sd["name"]])
            rec.event(M17S, sig=f"{sd['cls']}/{sd['solver']}|{sd['lm']}|{gclass}|sc={k}", cls=f"scenario|{sd['cls']}{('/' + sd['solver']) if sd['solver'] else ''}|{sd['lm']}",
                      sample={"stocks": sdefs, "time_items": items, "scenario": k})
            for q in a:
                if np.any(~np.isfinite(a[q])) or np.any(~np.isfinite(b[q])):
                    continue
                ok, rel = allclose_scaled(a[q], b[q], 1e-12)
                if not ok:
                    rec.violation(M17S, f"scenario-{k if k == 0 else 'n'}-result-differs-from-fresh-system:{sd['cls']}", dict(quantity=q, scenario=k, stock=sd, rel_diff=rel, time_items=items))
                    break


def c17_shared_model_case(rec, hub, rng, tier):
    """several stocks share one lifetime-model object; after every re-parameterisation EACH of them must follow"""
    fd = hub.fd
    cfg, lm = make_solvable(fd, rng, tier)
    if cfg is None:
        return
    kinds = [("InflowDrivenDSM", None, "inflow", "positive"), ("StockDrivenDSM", "manual", "stock", "stock"), ("InflowDrivenDSM", None, "inflow", "positive"), ("StockDrivenDSM", "lapack", "stock", "stock")]
    n = int(rng.integers(2, 4))
    stocks = []
    for k in range(n):
        cn, solver, attr, kind = kinds[int(rng.integers(0, len(kinds)))]
        stocks.append((make_stock(fd, cfg, cn, solver=solver, lm=lm, **{attr: driver_values(rng, cfg["shape"], kind)}), attr))
    told = {k: np.array(v, dtype=float) for k, v in cfg["truth"].items()}
    for rnd in range(3):
        with quiet():
            if rnd:
                told = {k: np.maximum(np.array(v) * rng.uniform(1.05, 1.5), v) if k in ("mean", "weibull_scale") else np.array(v) for k, v in told.items()}
                lm.set_prms(**{k: np.array(v) for k, v in told.items()})
            order = rng.permutation(n)
            for j in order:
                stocks[j][0].compute()
            for j in order:
                s_, attr = stocks[j]
                with hub.pause():
                    twin = S.fresh_stock(fd, s_, lm=S.clone_lm(fd, lm, prms=told), **{attr: getattr(s_, attr).values})
                    twin.compute()
                a, b = S.results_of(s_), S.results_of(twin)
                rec.event(M17, sig=f"shared-lm|{type(s_).__name__}|{cfg['model']}|round={rnd}|n={n}", cls=f"shared-lifetime-model|{type(s_).__name__}|round={rnd}")
                for q in a:
                    ok, rel = allclose_scaled(a[q], b[q], 1e-12)
                    if not ok:
                        rec.violation(M17, f"stock-sharing-a-lifetime-model-differs-from-fresh-object:round-{'0' if rnd == 0 else 'n'}", dict(quantity=q, cls=type(s_).__name__, model=cfg["model"], round=rnd, position_in_compute_order=int(list(order).index(j)), rel_diff=rel))
                        break


def c17_example_case(rec, hub, rng):
    """the shipped example system recomputed in a loop with changing parameters"""
    fd = hub.fd
    import importlib

    eo = importlib.import_module("flodym.example_objects")
    live = eo.get_example_mfa()
    for k in range(4):
        scale = float(rng.uniform(0.5, 2.0))
        with quiet():
            live.parameters["eol machines"][...] = live.parameters["eol machines"].values * scale
            live.compute()
            with hub.pause():
                fresh = eo.get_example_mfa()
                fresh.parameters["eol machines"][...] = live.parameters["eol machines"].values
                fresh.compute()
        rec.event(M17S, sig=f"example|{k}", cls="scenario|example_mfa")
        for n in live.flows:
            if not np.array_equal(live.flows[n].values, fresh.flows[n].values):
                rec.violation(M17S, "example-system-recompute-differs-from-fresh", {"flow": n, "scenario": k})
                return
        for n in live.stocks:
            if not np.array_equal(live.stocks[n].stock.values, fresh.stocks[n].stock.values):
                rec.violation(M17S, "example-system-recompute-differs-from-fresh", {"stock": n, "scenario": k})
                return
