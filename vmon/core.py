"""Verdict bookkeeping: events, violations, known findings, evidence, replay files, shards.

Three-valued outcome per run: held (exit 0) / violated (exit 1) / inconclusive (exit 2).
"""

from __future__ import annotations

import hashlib
import json
import os
import random
import sys
import time
import traceback

VERIF = os.path.dirname(os.path.dirname(os.path.abspath(__file__)))
REPO = os.environ.get("FLODYM_REPO", "/repo")
_OUT = os.environ.get("VMON_OUT") or VERIF  # mutant runs write elsewhere so committed evidence is not clobbered
EVIDENCE_DIR = os.path.join(_OUT, "evidence")
REPLAY_DIR = os.path.join(_OUT, "replay")
KNOWN_FILE = os.path.join(VERIF, "known_findings.json")

MAX_SAMPLES = 12
MAX_WITNESS_PER_MECH = 3


def jsonable(x, depth=0):
    """Best-effort conversion of a witness/case object to something json can hold."""
    import numpy as np

    if depth > 8:
        return repr(x)[:200]
    if x is None or isinstance(x, (bool, int, str)):
        return x
    if isinstance(x, float):
        if x != x:
            return "nan"
        if x in (float("inf"), float("-inf")):
            return repr(x)
        return x
    if isinstance(x, (np.integer,)):
        return int(x)
    if isinstance(x, (np.floating,)):
        return jsonable(float(x))
    if isinstance(x, np.bool_):
        return bool(x)
    if isinstance(x, np.ndarray):
        if x.size > 400:
            return {"ndarray_shape": list(x.shape), "head": jsonable(x.ravel()[:40].tolist(), depth + 1)}
        return jsonable(x.tolist(), depth + 1)
    if isinstance(x, dict):
        return {str(k): jsonable(v, depth + 1) for k, v in list(x.items())[:200]}
    if isinstance(x, (list, tuple, set, frozenset)):
        xs = list(x)
        out = [jsonable(v, depth + 1) for v in xs[:200]]
        if len(xs) > 200:
            out.append(f"... {len(xs) - 200} more")
        return out
    try:
        from fractions import Fraction

        if isinstance(x, Fraction):
            return float(x)
    except Exception:
        pass
    return repr(x)[:300]


def sig_hash(s: str) -> str:
    return hashlib.sha1(s.encode()).hexdigest()[:12]


def case_rng(seed: int, driver: str, shard: int, idx) -> random.Random:
    """Deterministic per-case generator: a case can be regenerated from (seed, driver, shard, idx) alone."""
    return random.Random(f"{seed}|{driver}|{shard}|{idx}")


def case_nprng(seed: int, driver: str, shard: int, idx):
    import numpy as np

    h = hashlib.sha1(f"{seed}|{driver}|{shard}|{idx}".encode()).digest()
    return np.random.default_rng(int.from_bytes(h[:8], "little"))


class Budget:
    """Bounds work by count and by time; never used for verdicts."""

    def __init__(self, seconds: float):
        self.t_end = time.monotonic() + seconds
        self.exhausted = False

    def ok(self) -> bool:
        if time.monotonic() > self.t_end:
            self.exhausted = True
            return False
        return True


class Recorder:
    def __init__(self, prop: str, tier: str, seed: int, shard: int = 0, nshards: int = 1):
        self.prop = prop
        self.tier = tier
        self.seed = seed
        self.shard = shard
        self.nshards = nshards
        self.t0 = time.monotonic()
        self.events: dict[str, int] = {}  # monitor -> evaluations
        self.sigs: dict[str, set] = {}  # monitor -> set of config-signature hashes (non-trivial ones)
        self.classes: dict[str, int] = {}  # config class -> count
        self.samples: list = []
        self.sample_keys: set = set()
        self.violations: dict[str, dict] = {}  # mech -> {count, monitor, witnesses:[...]}
        self.skips: dict[str, int] = {}
        self.required: dict[str, int] = {}
        self.deciding: set = set()
        self.infos: dict = {}
        self.exhaustive_spaces: dict[str, bool] = {}
        self.assumptions: list[str] = []
        self.case: dict | None = None  # current driver case (for replay)
        self.notes: list[str] = []
        self.inconclusive_reasons: list[str] = []
        self.rule = ""
        self.level = "exploration"
        self.hooks_attached: list[str] = []
        self.hooks_missing: list[str] = []

    # -- configuration ---------------------------------------------------
    def require(self, monitor: str, n: int = 1):
        """A deciding monitor: fewer than n evaluations makes the run inconclusive."""
        self.required[monitor] = max(n, self.required.get(monitor, 0))
        self.deciding.add(monitor)

    def set_case(self, **case):
        self.case = case

    # -- events ------------------------------------------------------------
    def event(self, monitor: str, sig: str | None = None, cls: str | None = None, sample=None, n: int = 1):
        self.events[monitor] = self.events.get(monitor, 0) + n
        if sig is not None:
            self.sigs.setdefault(monitor, set()).add(sig_hash(sig))
        if cls is not None:
            self.classes[cls] = self.classes.get(cls, 0) + 1
        if sample is not None and len(self.samples) < MAX_SAMPLES:
            key = (monitor, cls)
            if key not in self.sample_keys:
                self.sample_keys.add(key)
                self.samples.append({"monitor": monitor, "class": cls, "case": jsonable(sample)})

    def skip(self, monitor: str, reason: str):
        k = f"{monitor}: {reason}"
        self.skips[k] = self.skips.get(k, 0) + 1

    def violation(self, monitor: str, mech: str, witness: dict, prop: str | None = None):
        """mech is a *structural* signature of the failing mechanism (never a seed, hash or value)."""
        key = f"{prop or self.prop}|{monitor}|{mech}"
        v = self.violations.setdefault(
            key, {"property": prop or self.prop, "monitor": monitor, "mech": mech, "count": 0, "witnesses": []}
        )
        v["count"] += 1
        if len(v["witnesses"]) < MAX_WITNESS_PER_MECH:
            v["witnesses"].append({"case": jsonable(self.case), "witness": jsonable(witness)})

    def info(self, key: str, value):
        self.infos[key] = value

    def count_info(self, key: str, n: int = 1):
        self.infos[key] = self.infos.get(key, 0) + n

    def inconclusive(self, reason: str):
        self.inconclusive_reasons.append(reason)

    # -- (de)serialisation for shards --------------------------------------
    def dump(self) -> dict:
        return {
            "prop": self.prop,
            "events": self.events,
            "sigs": {k: sorted(v) for k, v in self.sigs.items()},
            "classes": self.classes,
            "samples": self.samples,
            "violations": self.violations,
            "skips": self.skips,
            "required": self.required,
            "deciding": sorted(self.deciding),
            "infos": jsonable(self.infos),
            "exhaustive": self.exhaustive_spaces,
            "assumptions": self.assumptions,
            "notes": self.notes,
            "inconclusive": self.inconclusive_reasons,
            "rule": self.rule,
            "level": self.level,
            "hooks_attached": self.hooks_attached,
            "hooks_missing": self.hooks_missing,
        }

    def merge(self, d: dict):
        for k, v in d["events"].items():
            self.events[k] = self.events.get(k, 0) + v
        for k, v in d["sigs"].items():
            self.sigs.setdefault(k, set()).update(v)
        for k, v in d["classes"].items():
            self.classes[k] = self.classes.get(k, 0) + v
        for s in d["samples"]:
            if len(self.samples) < MAX_SAMPLES:
                self.samples.append(s)
        for k, v in d["violations"].items():
            mine = self.violations.setdefault(k, {**v, "count": 0, "witnesses": []})
            mine["count"] += v["count"]
            for w in v["witnesses"]:
                if len(mine["witnesses"]) < MAX_WITNESS_PER_MECH:
                    mine["witnesses"].append(w)
        for k, v in d["skips"].items():
            self.skips[k] = self.skips.get(k, 0) + v
        for k, v in d["required"].items():
            self.required[k] = max(v, self.required.get(k, 0))
        self.deciding.update(d["deciding"])
        for k, v in d["infos"].items():
            if isinstance(v, (int, float)) and not isinstance(v, bool) and isinstance(self.infos.get(k, 0), (int, float)):
                self.infos[k] = self.infos.get(k, 0) + v
            elif isinstance(v, list) and isinstance(self.infos.get(k, []), list):
                cur = self.infos.setdefault(k, [])
                for x in v:
                    if x not in cur and len(cur) < 400:
                        cur.append(x)
            elif isinstance(v, dict) and isinstance(self.infos.get(k, {}), dict):
                cur = self.infos.setdefault(k, {})
                for kk, vv in v.items():
                    if isinstance(vv, (int, float)) and not isinstance(vv, bool):
                        cur[kk] = cur.get(kk, 0) + vv
                    else:
                        cur.setdefault(kk, vv)
            else:
                self.infos.setdefault(k, v)
        for k, v in d["exhaustive"].items():
            self.exhaustive_spaces[k] = self.exhaustive_spaces.get(k, True) and v
        for a in d["assumptions"]:
            if a not in self.assumptions:
                self.assumptions.append(a)
        for a in d["notes"]:
            if a not in self.notes:
                self.notes.append(a)
        self.inconclusive_reasons.extend(d["inconclusive"])
        self.rule = self.rule or d["rule"]
        self.level = d.get("level", self.level)
        for h in d["hooks_attached"]:
            if h not in self.hooks_attached:
                self.hooks_attached.append(h)
        for h in d["hooks_missing"]:
            if h not in self.hooks_missing:
                self.hooks_missing.append(h)


# ---------------------------------------------------------------------------
# known findings


def load_known() -> list[dict]:
    try:
        with open(KNOWN_FILE) as f:
            return json.load(f)["findings"]
    except FileNotFoundError:
        return []


def match_known(v: dict, known: list[dict]):
    for k in known:
        if k.get("status") != "open":
            continue
        if k["property"] == v["property"] and k["mechanism"] == v["mech"]:
            return k
    return None


# ---------------------------------------------------------------------------
# finishing a run


def finish(rec: Recorder, wall_s: float | None = None) -> int:
    """Write evidence and replay files, print verdict lines, return the exit code."""
    os.makedirs(EVIDENCE_DIR, exist_ok=True)
    os.makedirs(REPLAY_DIR, exist_ok=True)
    known = load_known()
    wall = wall_s if wall_s is not None else time.monotonic() - rec.t0

    real, known_hit = [], []
    for key, v in sorted(rec.violations.items()):
        k = match_known(v, known)
        if k is not None:
            known_hit.append((k, v))
        else:
            real.append(v)

    for k, v in known_hit:
        print(f"KNOWN-FINDING: property={v['property']} {k['id']} {k['what']} (seen {v['count']}x by monitor {v['monitor']})")

    # inconclusive?
    reasons = list(rec.inconclusive_reasons)
    for mon, n in sorted(rec.required.items()):
        if rec.events.get(mon, 0) < n:
            reasons.append(f"deciding monitor {mon} saw {rec.events.get(mon, 0)} < {n} events")

    replay_paths = []
    for v in real:
        name = f"{v['property']}-{sig_hash(v['monitor'] + '|' + v['mech'])}.json"
        path = os.path.join(REPLAY_DIR, name)
        with open(path, "w") as f:
            json.dump(
                {
                    "property": v["property"],
                    "monitor": v["monitor"],
                    "mechanism": v["mech"],
                    "count": v["count"],
                    "tier": rec.tier,
                    "seed": rec.seed,
                    "witnesses": v["witnesses"],
                },
                f,
                indent=1,
            )
        replay_paths.append(path)
        print(f"VIOLATION property={v['property']} replay={path}")
        print(f"  monitor={v['monitor']} mechanism={v['mech']} count={v['count']}")
        w = v["witnesses"][0]["witness"] if v["witnesses"] else {}
        print("  witness: " + json.dumps(w)[:1500])

    deciding_events = sum(n for m, n in rec.events.items() if m in rec.deciding) if rec.deciding else sum(rec.events.values())
    distinct = len(set().union(*[s for m, s in rec.sigs.items() if (not rec.deciding or m in rec.deciding)])) if rec.sigs else 0
    coverage = {
        "evaluations": int(deciding_events),
        "distinct_nontrivial": int(distinct),
        "rule": rec.rule,
        "samples": rec.samples if rec.samples else [{"note": "no sample recorded"}],
        "exhaustive": bool(rec.exhaustive_spaces) and all(rec.exhaustive_spaces.values()),
        "exhaustive_subspaces": rec.exhaustive_spaces,
        "events_by_monitor": dict(sorted(rec.events.items())),
        "distinct_by_monitor": {k: len(v) for k, v in sorted(rec.sigs.items())},
        "deciding_monitors": sorted(rec.deciding),
        "config_classes": dict(sorted(rec.classes.items(), key=lambda kv: -kv[1])[:400]),
        "skipped": rec.skips,
        "known_findings_hit": [{"id": k["id"], "count": v["count"]} for k, v in known_hit],
        "violations_by_mechanism": {f"{v['monitor']}|{v['mech']}": v["count"] for v in real},
        "hooks_attached": rec.hooks_attached,
        "hooks_missing": rec.hooks_missing,
        "shards": rec.nshards,
        "verdict": "violated" if real else ("inconclusive" if reasons else "held"),
        "inconclusive_reasons": reasons,
        "notes": rec.notes,
    }
    coverage.update(rec.infos)
    evidence = {
        "property_id": rec.prop,
        "tier": rec.tier,
        "seed": int(rec.seed),
        "level": rec.level,
        "coverage": jsonable(coverage),
        "assumptions": rec.assumptions
        + ["trusted base: CPython, numpy, pandas, scipy, and the reference models in /verif/vmon/model.py"],
        "wall_s": round(float(wall), 2),
        "violations": len(real),
    }
    with open(os.path.join(EVIDENCE_DIR, f"{rec.prop}.json"), "w") as f:
        json.dump(evidence, f, indent=1)

    ev_line = ", ".join(f"{m}={n}" for m, n in sorted(rec.events.items()))
    print(f"[{rec.prop} {rec.tier} seed={rec.seed}] events: {ev_line}")
    print(f"[{rec.prop}] distinct non-trivial configurations: {distinct}; wall {wall:.1f}s")
    if real:
        return 1
    if reasons:
        for r in reasons:
            print(f"INCONCLUSIVE property={rec.prop} reason={r}")
        return 2
    print(f"HELD property={rec.prop} on {deciding_events} judged events")
    return 0


# ---------------------------------------------------------------------------
# shards


def run_sharded(prop: str, tier: str, seed: int, nshards: int, timeout_s: float, extra_env=None) -> Recorder:
    """Run nshards children (subprocess.run-style, never multiprocessing.Pool) and merge."""
    import subprocess
    import tempfile

    rec = Recorder(prop, tier, seed, 0, nshards)
    tmpd = tempfile.mkdtemp(prefix="vmon-shards-")
    procs = []
    try:
        for i in range(nshards):
            out = os.path.join(tmpd, f"shard{i}.json")
            env = dict(os.environ)
            env.update(extra_env or {})
            cmd = [sys.executable, "-B", "-m", "vmon.main", prop, tier, "--shard", f"{i}/{nshards}", "--out", out]
            p = subprocess.Popen(cmd, cwd=VERIF, env=env, stdout=subprocess.PIPE, stderr=subprocess.STDOUT, text=True)
            procs.append((i, p, out))
        t_end = time.monotonic() + timeout_s
        for i, p, out in procs:
            try:
                stdout, _ = p.communicate(timeout=max(1.0, t_end - time.monotonic()))
            except subprocess.TimeoutExpired:
                p.kill()
                stdout, _ = p.communicate()
                rec.inconclusive(f"shard {i} hit the wall-clock watchdog ({timeout_s:.0f}s)")
                continue
            if os.path.exists(out):
                with open(out) as f:
                    rec.merge(json.load(f))
            else:
                tail = (stdout or "")[-1500:]
                rec.inconclusive(f"shard {i} died without a result (rc={p.returncode}): {tail}")
    finally:
        import shutil

        shutil.rmtree(tmpd, ignore_errors=True)
    return rec


def guarded(rec: Recorder, monitor: str, fn, *a, **k):
    """Run a driver step; an unexpected exception *of the harness* makes the run inconclusive, not violated."""
    try:
        return fn(*a, **k)
    except Exception:
        rec.inconclusive(f"harness error in {monitor}: {traceback.format_exc()[-800:]}")
        return None


def interleave(*lists):
    """merge work lists proportionally, so that an exhausted time budget cuts every phase alike instead of starving the last one"""
    tagged = []
    for li, l in enumerate(lists):
        n = len(l)
        for i, item in enumerate(l):
            tagged.append(((i + 0.5) / max(n, 1), li, item))
    tagged.sort(key=lambda t: (t[0], t[1]))
    return [t[2] for t in tagged]
