"""Piggy-back workloads: the repository's own tests, howtos and examples executed under the armed monitors.

pytest's own pass/fail is irrelevant here; only monitor events and verdicts are collected.  Scripts are copied
(together with their input data) to a temporary directory, run with runpy, figures are never shown."""

from __future__ import annotations

import contextlib
import io
import os
import runpy
import shutil
import sys
import tempfile

from .core import REPO


def run_repo_tests(rec, hub, select=None):
    import pytest

    tests = os.path.join(REPO, "tests")
    args = ["-q", "-p", "no:cacheprovider", "--no-header", "-x" if False else "-q", "--rootdir", REPO, tests]
    if select:
        args += ["-k", select]
    rec.set_case(driver="piggy.tests", select=select)
    buf = io.StringIO()
    cwd = os.getcwd()
    try:
        os.chdir(REPO)
        with contextlib.redirect_stdout(buf), contextlib.redirect_stderr(io.StringIO()):
            rc = pytest.main(args)
    finally:
        os.chdir(cwd)
    tail = buf.getvalue().strip().splitlines()[-1:] if buf.getvalue().strip() else []
    rec.info("piggyback_repo_tests", {"pytest_exit": int(rc), "summary": tail[0] if tail else ""})
    return rc


def _stub_show():
    try:
        import plotly.graph_objects as go
        import plotly.basedatatypes as bd

        bd.BaseFigure.show = lambda self, *a, **k: None
        go.Figure.show = lambda self, *a, **k: None
        bd.BaseFigure.write_image = lambda self, *a, **k: None
    except Exception:
        pass
    try:
        import matplotlib

        matplotlib.use("Agg")
        from matplotlib import pyplot as plt

        plt.show = lambda *a, **k: None
        import matplotlib.figure as mf

        mf.Figure.show = lambda self, *a, **k: None
    except Exception:
        pass


def run_scripts(rec, hub, folder, only=None):
    """folder: 'howtos' or 'examples'"""
    src = os.path.join(REPO, folder)
    tmp = tempfile.mkdtemp(prefix=f"vmon-piggy-{folder}-")
    done = {}
    cwd = os.getcwd()
    argv = list(sys.argv)
    try:
        dst = os.path.join(tmp, folder)
        # howtos read ../examples/input_data: keep the two folders side by side
        for f in ("howtos", "examples"):
            shutil.copytree(os.path.join(REPO, f), os.path.join(tmp, f), ignore=shutil.ignore_patterns("*.ipynb", "__pycache__", "pictures"))
        _stub_show()
        for name in sorted(os.listdir(dst)):
            if not name.endswith(".py") or (only and only not in name):
                continue
            rec.set_case(driver=f"piggy.{folder}", script=name)
            os.chdir(dst)
            sys.argv = [name]
            try:
                with contextlib.redirect_stdout(io.StringIO()), contextlib.redirect_stderr(io.StringIO()):
                    runpy.run_path(os.path.join(dst, name), run_name="__main__")
                done[name] = "ok"
            except SystemExit:
                done[name] = "exit"
            except BaseException as e:  # a script that dies is information, not a verdict
                done[name] = f"{type(e).__name__}: {str(e)[:120]}"
            finally:
                os.chdir(cwd)
                try:
                    from matplotlib import pyplot as plt

                    plt.close("all")
                except Exception:
                    pass
    finally:
        sys.argv = argv
        os.chdir(cwd)
        shutil.rmtree(tmp, ignore_errors=True)
    rec.info(f"piggyback_{folder}", done)
    return done


def run_all(rec, hub, shard=0, nshards=1):
    """spread the three workloads over the first shards"""
    parts = [("tests", lambda: run_repo_tests(rec, hub)), ("howtos", lambda: run_scripts(rec, hub, "howtos")), ("examples", lambda: run_scripts(rec, hub, "examples"))]
    for i, (name, f) in enumerate(parts):
        if i % max(1, nshards) == shard % max(1, nshards) or nshards == 1:
            before = dict(rec.events)
            f()
            gained = {k: v - before.get(k, 0) for k, v in rec.events.items() if v - before.get(k, 0)}
            rec.info(f"piggyback_{name}_events", gained)
