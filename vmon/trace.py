"""sys.monitoring helpers: (a) reach evidence — which flodym functions ran while the monitors were armed,
(b) control-flow trace hashes — the sequence of executed flodym lines per operation, to show that flodym's Python
layer runs the same lines whatever the values are (value-obliviousness; evidence only, never a verdict)."""

from __future__ import annotations

import ast
import contextlib
import hashlib
import json
import os
import sys

from .core import REPO, VERIF

_mon = getattr(sys, "monitoring", None)
REACH_TOOL = 4
LINE_TOOL = 3
_FLODYM_DIR = os.path.join(os.path.realpath(REPO), "flodym") + os.sep


class Reach:
    """PY_START counts per flodym function (about 5 % overhead)."""

    def __init__(self):
        self.counts: dict[str, int] = {}
        self.active = False

    def start(self):
        if _mon is None or self.active:
            return
        try:
            _mon.use_tool_id(REACH_TOOL, "vmon-reach")
        except ValueError:
            return
        counts = self.counts

        def cb(code, offset):
            fn = code.co_filename
            if not fn.startswith(_FLODYM_DIR):
                return _mon.DISABLE
            key = f"{fn[len(_FLODYM_DIR):]}:{code.co_qualname}"
            counts[key] = counts.get(key, 0) + 1

        _mon.register_callback(REACH_TOOL, _mon.events.PY_START, cb)
        _mon.set_events(REACH_TOOL, _mon.events.PY_START)
        self.active = True

    def stop(self):
        if _mon is None or not self.active:
            return
        _mon.set_events(REACH_TOOL, 0)
        _mon.register_callback(REACH_TOOL, _mon.events.PY_START, None)
        _mon.free_tool_id(REACH_TOOL)
        self.active = False


def anchors_of(prop: str):
    """resolve anchors.mechanism[].where (file:line ranges) of a property to function names by ast (survives line shifts
    only approximately: the names are looked up in the *current* tree at the recorded lines, then reported by name)"""
    out = set()
    try:
        with open(os.path.join(VERIF, "properties.jsonl")) as f:
            props = {json.loads(l)["id"]: json.loads(l) for l in f}
        import re

        for m in props[prop]["anchors"]["mechanism"]:
            for fn, spec in re.findall(r"(flodym/[\w/]+\.py):([\d\-, ]+)", m.get("where", "")):
                path = os.path.join(REPO, fn)
                if not os.path.exists(path):
                    continue
                tree = ast.parse(open(path).read())
                funcs = []
                for node in ast.walk(tree):
                    if isinstance(node, (ast.FunctionDef, ast.AsyncFunctionDef)):
                        funcs.append((node.lineno, node.end_lineno, node.name))
                for part in spec.split(","):
                    part = part.strip()
                    if not part:
                        continue
                    a, _, b = part.partition("-")
                    lo, hi = int(a), int(b or a)
                    for l0, l1, name in funcs:
                        if l0 <= hi and l1 >= lo:
                            out.add(f"{fn[len('flodym/'):]}:{name}")
    except Exception:
        pass
    return sorted(out)


def reach_report(reach: Reach, prop: str):
    anchors = anchors_of(prop)
    reached_names = {}
    for k, v in reach.counts.items():
        f, q = k.split(":", 1)
        reached_names[f"{f}:{q.split('.')[-1]}"] = reached_names.get(f"{f}:{q.split('.')[-1]}", 0) + v
    return {
        "functions_reached": len(reach.counts),
        "calls": int(sum(reach.counts.values())),
        "top": dict(sorted(reach.counts.items(), key=lambda kv: -kv[1])[:25]),
        "anchor_functions_by_name_hint": {a: reached_names.get(a, 0) for a in anchors},
    }


@contextlib.contextmanager
def line_trace():
    """yields a list that receives (file, line) for every flodym line executed inside the block"""
    seq: list = []
    if _mon is None:
        yield seq
        return
    try:
        _mon.use_tool_id(LINE_TOOL, "vmon-lines")
    except ValueError:
        yield seq
        return

    def cb(code, lineno):
        fn = code.co_filename
        if not fn.startswith(_FLODYM_DIR):
            return _mon.DISABLE
        seq.append((fn[len(_FLODYM_DIR):], lineno))

    _mon.register_callback(LINE_TOOL, _mon.events.LINE, cb)
    _mon.set_events(LINE_TOOL, _mon.events.LINE)
    try:
        yield seq
    finally:
        _mon.set_events(LINE_TOOL, 0)
        _mon.register_callback(LINE_TOOL, _mon.events.LINE, None)
        _mon.free_tool_id(LINE_TOOL)


def trace_hash(seq):
    return hashlib.sha1(repr(seq).encode()).hexdigest()[:16]


def first_divergence(a, b):
    for i, (x, y) in enumerate(zip(a, b)):
        if x != y:
            return {"step": i, "a": list(x), "b": list(y)}
    if len(a) != len(b):
        return {"step": min(len(a), len(b)), "a": "end" if len(a) < len(b) else list(a[len(b)]), "b": "end" if len(b) < len(a) else list(b[len(a)])}
    return None
