"""Reference models (R-layer).  No einsum, no letter strings handed to numpy, no flodym code.

LArr      label-keyed array with exact (int / Fraction) arithmetic, NaN propagates as float nan
LDimSet   ordered list of (letter, name, items)
grid_*    interval bounds / lengths (documented rule)
survival  closed-form survival functions, Gauss-Lobatto rules from Legendre polynomials
"""

from __future__ import annotations

import itertools
import math
from fractions import Fraction

import numpy as np

EPS = float(np.finfo(np.float64).eps)

# ---------------------------------------------------------------------------
# snapshots


class Snap:
    """Frozen deep snapshot of a FlodymArray (or anything with .dims/.values)."""

    __slots__ = ("letters", "names", "items", "dtypes", "values", "name", "cls", "ok")

    def __init__(self, arr):
        dl = list(arr.dims.dim_list)
        self.letters = tuple(d.letter for d in dl)
        self.names = tuple(d.name for d in dl)
        self.items = tuple(tuple(d.items) for d in dl)
        self.dtypes = tuple(d.dtype for d in dl)
        v = arr.values
        isarr = isinstance(v, np.ndarray)
        self.values = v.copy() if isarr else v
        # ok: the snapshot is a well-formed array (values is an ndarray of the dims' shape)
        self.ok = isarr and v.shape == tuple(len(i) for i in self.items)
        self.name = getattr(arr, "name", None)
        self.cls = type(arr).__name__

    @property
    def shape(self):
        return tuple(len(i) for i in self.items)

    def dims_tuple(self):
        return tuple(zip(self.letters, self.names, self.items))

    def same_dims(self, other: "Snap") -> bool:
        return self.letters == other.letters and self.names == other.names and self.items == other.items

    def same(self, other: "Snap") -> bool:
        if not self.same_dims(other):
            return False
        a, b = self.values, other.values
        if not (isinstance(a, np.ndarray) and isinstance(b, np.ndarray)):
            return type(a) is type(b) and (a is b or (not isinstance(a, np.ndarray) and not hasattr(a, "dims") and a == b))
        return a.shape == b.shape and a.dtype == b.dtype and a.tobytes() == b.tobytes()

    def describe(self, maxn=64):
        v = self.values
        return {
            "letters": list(self.letters),
            "items": [list(i)[:12] for i in self.items],
            "values": v.tolist() if isinstance(v, np.ndarray) and v.size <= maxn else (f"ndarray{v.shape}" if isinstance(v, np.ndarray) else repr(v)[:80]),
        }


class DSnap:
    """Snapshot of a DimensionSet."""

    __slots__ = ("dims",)

    def __init__(self, ds):
        self.dims = tuple((d.letter, d.name, tuple(d.items)) for d in ds.dim_list)

    def same(self, other):
        return self.dims == other.dims

    @property
    def letters(self):
        return tuple(d[0] for d in self.dims)


# ---------------------------------------------------------------------------
# numbers


def isnan(x) -> bool:
    return isinstance(x, float) and x != x


def to_num(v):
    """numpy scalar / python number -> exact python number (int or Fraction); nan/inf stay float."""
    if isinstance(v, np.generic):
        v = v.item()
    if isinstance(v, bool):
        return int(v)
    if isinstance(v, int):
        return v
    if isinstance(v, float):
        if v != v or v in (math.inf, -math.inf):
            return v
        if v == int(v) and abs(v) < 2**62:
            return int(v)
        return Fraction(v)
    if isinstance(v, Fraction):
        return v
    raise TypeError(f"not a number: {v!r}")


def nadd(a, b):
    if isnan(a) or isnan(b):
        return math.nan
    return a + b


def nsub(a, b):
    if isnan(a) or isnan(b):
        return math.nan
    return a - b


def nmul(a, b):
    if isnan(a) or isnan(b):
        return math.nan
    return a * b


def ndiv(a, b):
    if isnan(a) or isnan(b):
        return math.nan
    if b == 0:
        return math.nan if a == 0 else (math.inf if a > 0 else -math.inf)
    if isinstance(a, int) and isinstance(b, int):
        return Fraction(a, b)
    return a / b


def nmin(a, b):
    if isnan(a) or isnan(b):
        return math.nan
    return a if a <= b else b


def nmax(a, b):
    if isnan(a) or isnan(b):
        return math.nan
    return a if a >= b else b


def nsum(xs):
    tot = 0
    for x in xs:
        if isnan(x):
            return math.nan
        tot = tot + x
    return tot


def nabs(a):
    return a if isnan(a) else abs(a)


def as_float(x) -> float:
    if isinstance(x, Fraction):
        return x.numerator / x.denominator
    return float(x)


# ---------------------------------------------------------------------------
# LArr


class LArr:
    """dims = [(letter, name, items)], cell[label tuple in dims order] = exact number."""

    def __init__(self, dims, cell):
        self.dims = [(d[0], d[1], tuple(d[2])) for d in dims]
        self.cell = cell

    # construction
    @classmethod
    def from_snap(cls, s: Snap):
        cell = {}
        its = s.items
        v = s.values
        for idx in np.ndindex(*s.shape):
            cell[tuple(its[k][i] for k, i in enumerate(idx))] = to_num(v[idx])
        return cls(s.dims_tuple(), cell)

    @classmethod
    def from_array(cls, arr):
        return cls.from_snap(Snap(arr))

    @classmethod
    def full(cls, dims, value):
        dims = [(d[0], d[1], tuple(d[2])) for d in dims]
        cell = {lab: value for lab in itertools.product(*[d[2] for d in dims])}
        return cls(dims, cell)

    # access
    @property
    def letters(self):
        return tuple(d[0] for d in self.dims)

    def dim(self, letter):
        for d in self.dims:
            if d[0] == letter:
                return d
        raise KeyError(letter)

    def labels(self):
        return itertools.product(*[d[2] for d in self.dims])

    def size(self):
        n = 1
        for d in self.dims:
            n *= len(d[2])
        return n

    def map(self, f):
        return LArr(self.dims, {k: f(v) for k, v in self.cell.items()})

    def absarr(self):
        return self.map(nabs)

    # by-label operations -----------------------------------------------------
    def marginal(self, keep):
        """Sum over all dims not in keep; result dims in keep's order."""
        pos = [self.letters.index(l) for l in keep]
        dims = [self.dims[p] for p in pos]
        groups: dict = {}
        for lab, v in self.cell.items():
            groups.setdefault(tuple(lab[p] for p in pos), []).append(v)
        cell = {}
        for lab in itertools.product(*[d[2] for d in dims]):
            cell[lab] = nsum(groups.get(lab, []))
        return LArr(dims, cell)

    def count_terms(self, keep) -> int:
        n = 1
        for d in self.dims:
            if d[0] not in keep:
                n *= len(d[2])
        return n

    def broadcast(self, dims):
        """Replicate by label to the given dims (a superset), in that order."""
        dims = [(d[0], d[1], tuple(d[2])) for d in dims]
        tl = [d[0] for d in dims]
        pos = [tl.index(l) for l in self.letters]
        cell = {}
        for lab in itertools.product(*[d[2] for d in dims]):
            cell[lab] = self.cell[tuple(lab[p] for p in pos)]
        return LArr(dims, cell)

    def reorder(self, letters):
        return self.marginal(list(letters))

    def elementwise(self, other: "LArr", f):
        assert self.letters == other.letters
        return LArr(self.dims, {k: f(v, other.cell[k]) for k, v in self.cell.items()})

    def outer(self, other: "LArr", f):
        """dims = self's, then other's new ones; entry = f(self[labels], other[labels])."""
        new = [d for d in other.dims if d[0] not in self.letters]
        dims = self.dims + new
        tl = [d[0] for d in dims]
        ps = [tl.index(l) for l in self.letters]
        po = [tl.index(l) for l in other.letters]
        cell = {}
        for lab in itertools.product(*[d[2] for d in dims]):
            cell[lab] = f(self.cell[tuple(lab[p] for p in ps)], other.cell[tuple(lab[p] for p in po)])
        return LArr(dims, cell)

    def common(self, other):
        return [l for l in self.letters if l in other.letters]

    def total(self):
        return nsum(self.cell.values())

    def cumsum(self, letter):
        p = self.letters.index(letter)
        items = self.dims[p][2]
        cell = {}
        for lab in self.labels():
            acc = 0
            for it in items:
                l2 = lab[:p] + (it,) + lab[p + 1 :]
                acc = nadd(acc, self.cell[l2])
                if it == lab[p]:
                    break
            cell[lab] = acc
        return LArr(self.dims, cell)

    def select(self, sel: dict):
        """sel[letter] = ('single', item) | ('subset', (letter2, name2, items2)) ; others kept.
        Returns the sub-array: singles dropped, subsets replaced, order kept."""
        dims = []
        for d in self.dims:
            s = sel.get(d[0])
            if s is None:
                dims.append(d)
            elif s[0] == "subset":
                dims.append((s[1][0], s[1][1], tuple(s[1][2])))
            # single: dropped
        cell = {}
        for lab in itertools.product(*[d[2] for d in dims]):
            full = []
            j = 0
            for d in self.dims:
                s = sel.get(d[0])
                if s is not None and s[0] == "single":
                    full.append(s[1])
                else:
                    full.append(lab[j])
                    j += 1
            cell[lab] = self.cell[tuple(full)]
        return LArr(dims, cell)

    def region_labels(self, sel: dict):
        """sel[letter] = ('single', item) | ('many', items).  Yields (full label, region label)."""
        ranges = []
        for d in self.dims:
            s = sel.get(d[0])
            if s is None:
                ranges.append(d[2])
            elif s[0] == "single":
                ranges.append((s[1],))
            else:
                ranges.append(tuple(s[1]))
        keep = [i for i, d in enumerate(self.dims) if not (sel.get(d[0]) or ("x",))[0] == "single"]
        for lab in itertools.product(*ranges):
            yield lab, tuple(lab[i] for i in keep)

    def to_ndarray(self):
        shape = tuple(len(d[2]) for d in self.dims)
        out = np.zeros(shape, dtype=float)
        for idx in np.ndindex(*shape):
            lab = tuple(self.dims[k][2][i] for k, i in enumerate(idx))
            out[idx] = as_float(self.cell[lab])
        return out


def compare_larr(obs: LArr, ref: LArr, tol=None):
    """Label-by-label comparison.  tol: None -> exact; else dict label->abs tol or a float.
    Returns None if equal else (label, observed, expected, kind)."""
    if [(d[0], d[2]) for d in obs.dims] != [(d[0], d[2]) for d in ref.dims]:
        return ("dims", [(d[0], list(d[2])) for d in obs.dims], [(d[0], list(d[2])) for d in ref.dims], "dims")
    for lab, e in ref.cell.items():
        o = obs.cell.get(lab)
        if o is None:
            return (lab, None, e, "missing")
        if isnan(e) or isnan(o):
            if isnan(e) != isnan(o):
                return (lab, o, e, "nan-set")
            continue
        if isinstance(e, float) and math.isinf(e) or isinstance(o, float) and math.isinf(o):
            if as_float(o) != as_float(e):
                return (lab, o, e, "inf")
            continue
        if tol is None:
            if o != e:
                return (lab, as_float(o), as_float(e), "value")
        else:
            t = tol[lab] if isinstance(tol, dict) else tol
            if abs(o - e) > t:
                return (lab, as_float(o), as_float(e), "value")
    return None


# ---------------------------------------------------------------------------
# LDimSet


class LDimSet:
    """Ordered list of (letter, name, items)."""

    def __init__(self, dims=()):
        self.dims = [(d[0], d[1], tuple(d[2])) for d in dims]

    def copy(self):
        return LDimSet(self.dims)

    @property
    def letters(self):
        return tuple(d[0] for d in self.dims)

    @property
    def names(self):
        return tuple(d[1] for d in self.dims)

    def has(self, key):
        return key in self.letters or key in self.names

    def get(self, key):
        for d in self.dims:
            if d[0] == key or d[1] == key:
                return d
        raise KeyError(key)

    def index(self, key):
        return self.dims.index(self.get(key))

    def union(self, o):
        return LDimSet(self.dims + [d for d in o.dims if d[0] not in self.letters])

    def inter(self, o):
        return LDimSet([d for d in self.dims if d[0] in o.letters])

    def diff(self, o):
        return LDimSet([d for d in self.dims if d[0] not in o.letters])

    def xor(self, o):
        return self.diff(o).union(o.diff(self))

    def subset(self, keys):
        return LDimSet([self.get(k) for k in keys])

    def shape(self):
        return tuple(len(d[2]) for d in self.dims)

    def __eq__(self, o):
        return self.dims == o.dims

    def __repr__(self):
        return "LDimSet(" + ",".join(d[0] for d in self.dims) + ")"


# ---------------------------------------------------------------------------
# time grid (documented rule: bounds at midpoints, first/last interval mirrors its neighbour)


def grid_bounds(items):
    items = [Fraction(x) for x in items]
    mid = [(a + b) / 2 for a, b in zip(items[:-1], items[1:])]
    first = mid[0] - (mid[1] - mid[0])
    last = mid[-1] + (mid[-1] - mid[-2])
    return [first] + mid + [last]


def grid_lengths(items):
    b = grid_bounds(items)
    return [b[i + 1] - b[i] for i in range(len(b) - 1)]


assert [float(x) for x in grid_lengths([2000, 2005, 2010, 2020, 2030])] == [5, 5, 7.5, 10, 10]

# ---------------------------------------------------------------------------
# survival functions (closed forms) and Gauss-Lobatto rules

SQRT2 = math.sqrt(2.0)


def sf_normal(t, mean, std):
    return 0.5 * math.erfc((t - mean) / (std * SQRT2))


def sf_foldnorm(t, mean, std):
    if t <= 0:
        return 1.0
    c = mean / std
    x = t / std
    return 0.5 * (math.erfc((x + c) / SQRT2) + math.erfc((x - c) / SQRT2))


def sf_lognormal(t, mean, std):
    if t <= 0:
        return 1.0
    m2, s2 = mean * mean, std * std
    mu = math.log(m2 / math.sqrt(m2 + s2))
    sig = math.sqrt(math.log(1.0 + s2 / m2))
    return 0.5 * math.erfc((math.log(t) - mu) / (sig * SQRT2))


def sf_weibull(t, shape, scale):
    if t <= 0:
        return 1.0
    return math.exp(-((t / scale) ** shape))


def sf_fixed(t, mean):
    return 1.0 if t < mean else 0.0


SURVIVAL = {
    "FixedLifetime": (("mean",), sf_fixed),
    "NormalLifetime": (("mean", "std"), sf_normal),
    "FoldedNormalLifetime": (("mean", "std"), sf_foldnorm),
    "LogNormalLifetime": (("mean", "std"), sf_lognormal),
    "WeibullLifetime": (("weibull_shape", "weibull_scale"), sf_weibull),
}


def gauss_lobatto(n: int):
    """Nodes/weights on [-1, 1] from Legendre polynomials: interior nodes = roots of P'_{n-1},
    weights 2 / (n (n-1) P_{n-1}(x)^2)."""
    from numpy.polynomial import legendre as L

    P = L.Legendre.basis(n - 1)
    interior = np.sort(np.real(P.deriv().roots())) if n > 2 else np.array([])
    # polish the roots by Newton on P'
    dP, ddP = P.deriv(), P.deriv(2)
    for _ in range(4):
        if interior.size:
            interior = interior - dP(interior) / ddP(interior)
    nodes = np.concatenate(([-1.0], interior, [1.0]))
    weights = 2.0 / (n * (n - 1) * P(nodes) ** 2)
    return nodes.tolist(), weights.tolist()


def quad_rule(inflow_at: str, n_pts: int):
    """(eta, weight) pairs on [0,1] for the inflow instant inside the cohort's interval."""
    if n_pts > 1:
        nodes, weights = gauss_lobatto(n_pts)
        return [((x + 1) / 2, w / 2) for x, w in zip(nodes, weights)]
    return [({"start": 0.0, "middle": 0.5, "end": 1.0}[inflow_at], 1.0)]


def ref_sf_table(model_name, time_items, inflow_at, n_pts, prm_at):
    """prm_at(c) -> tuple of scalar parameters for cohort index c (for one label combination).
    Returns sf[t][c] as floats (0 above the diagonal)."""
    names, f = SURVIVAL[model_name]
    b = [float(x) for x in grid_bounds(time_items)]
    n = len(time_items)
    rule = quad_rule(inflow_at, n_pts)
    sf = [[0.0] * n for _ in range(n)]
    for c in range(n):
        prm = prm_at(c)
        for t in range(c, n):
            acc = 0.0
            for eta, w in rule:
                t_in = eta * b[c + 1] + (1 - eta) * b[c]
                acc += w * f(b[t + 1] - t_in, *prm)
            sf[t][c] = acc
    return sf


def knife_edge(model_name, time_items, inflow_at, n_pts, prm_at, tol=1e-9):
    """Fixed lifetime: is some age within tol of the mean (verdict would depend on rounding)?"""
    if model_name != "FixedLifetime":
        return False
    b = [float(x) for x in grid_bounds(time_items)]
    n = len(time_items)
    for c in range(n):
        (mean,) = prm_at(c)
        for t in range(c, n):
            for eta, _ in quad_rule(inflow_at, n_pts):
                t_in = eta * b[c + 1] + (1 - eta) * b[c]
                age = b[t + 1] - t_in
                if abs(age - mean) <= tol * max(1.0, abs(mean)):
                    # an exact tie of exactly representable numbers is not a knife edge: S(L) = P(T > L) = 0 is well defined
                    # and no rounding is involved (bounds, eta and the mean are multiples of 1/8 of moderate size)
                    exact = all(float(x * 8).is_integer() and abs(x) < 2**40 for x in (b[t + 1], b[c + 1], b[c], eta, mean)) and age == mean
                    if not exact:
                        return True
    return False
