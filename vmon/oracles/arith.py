"""C01 oracles: arithmetic between arrays matches dimensions by label (reference: LArr)."""

from __future__ import annotations

import math
from fractions import Fraction

import numpy as np

from ..model import EPS, LArr, Snap, as_float, compare_larr, isnan, nabs, nadd, ndiv, nmax, nmin, nmul, nsub, to_num
from .common import (judgeable_dtype, MAX_CELLS, additive_exact, exc_text, first_diff, has_inf, is_real_number, lens, regime, rel_tolerance,
                     same_universe, sum_tolerance, unique_items)

M = "arith-by-label"


def _pow(a, b):
    """scalar power with numpy's conventions (0**-1 = inf, nan**0 = 1, negative**fraction = nan); the label alignment,
    not the scalar function, is what the oracle decides"""
    if isinstance(a, int) and isinstance(b, int) and 0 <= b <= 64 and abs(a) < 2**20:
        return a**b
    with np.errstate(all="ignore"):
        r = float(np.float64(as_float(a)) ** np.float64(as_float(b)))
    return r


def register(hub, prop="C01"):
    fd = hub.fd
    rec = hub.rec
    rec.require(M, 50)

    def viol(call, mech, **w):
        rec.violation(M, f"{call.op.split('.')[-1]}:{mech}", w, prop=prop)

    def describe(call, xs, ys, num):
        return {"op": call.op, "x": xs.describe(), "y": ys.describe() if ys is not None else num}

    def judge(call, kind, xs: Snap, ys, num, reflected=False):
        """kind in add sub min max mul div pow ; ys Snap or None (then num is the number)."""
        opn = call.op.split(".")[-1]
        if not xs.ok or (ys is not None and not ys.ok):
            return
        if ys is not None and not same_universe(xs, ys):
            rec.skip(M, "operands not from one common dimension set")
            return
        if not unique_items(xs) or (ys is not None and not unique_items(ys)):
            rec.skip(M, "dimension with repeated items")
            return
        nx = int(np.prod(xs.shape)) if xs.shape else 1
        ny = int(np.prod(ys.shape)) if ys is not None and ys.shape else 1
        if not judgeable_dtype(xs.values) or (ys is not None and not judgeable_dtype(ys.values)):
            rec.skip(M, "non-real dtype")
            return
        X = None
        union_size = nx
        if ys is not None:
            for l, it in zip(ys.letters, ys.items):
                if l not in xs.letters:
                    union_size *= len(it)
        if max(nx, ny, union_size if kind in ("mul", "div") else 0) > MAX_CELLS:
            rec.skip(M, "operands too large for complete evaluation")
            return
        X = LArr.from_snap(xs)
        if ys is not None:
            Y = LArr.from_snap(ys)
        else:
            Y = LArr.full(X.dims, to_num(num))
        if has_inf(X, Y):
            rec.skip(M, "infinite operand")
            return
        L, R = (Y, X) if reflected else (X, Y)  # L op R
        reg = regime(X, Y)
        ysig = ("num:" + type(num).__name__) if ys is None else f"{''.join(ys.letters)}:{lens(ys)}"
        sig = f"{opn}|{''.join(xs.letters)}:{lens(xs)}|{ysig}|{xs.values.dtype.kind}{'' if ys is None else ys.values.dtype.kind}"
        cls = f"{opn}|{reg}|{'scalar' if ys is None else ('0d' if (not xs.letters or not ys.letters) else 'arr')}"
        must_raise = False
        tol = None
        if kind in ("add", "sub", "min", "max"):
            common = L.common(R)
            lm, rm = L.marginal(common), R.marginal(common)
            f = {"add": nadd, "sub": nsub, "min": nmin, "max": nmax}[kind]
            ref = lm.elementwise(rm, f)
            if not additive_exact(L, R):
                tl, tr = sum_tolerance(L, common), sum_tolerance(R, common)
                tol = {lab: tl[lab] + tr[lab] + 4 * EPS * abs(as_float(v)) for lab, v in ref.cell.items()}
        elif kind == "mul":
            ref = L.outer(R, nmul)
            tol = _prod_tol(ref, exact_ok=True)
        elif kind == "div":
            if any(v == 0 for v in R.cell.values() if not isnan(v)):
                rec.skip(M, "division by an exact zero (not judged)")
                return
            ref = L.outer(R, ndiv)
            pow2 = all(_is_pow2(v) for v in R.cell.values() if not isnan(v))
            tol = _prod_tol(ref, exact_ok=pow2)
        elif kind == "pow":
            if any(l not in L.letters for l in R.letters):
                must_raise = True
                ref = None
            else:
                ref = L.elementwise(R.broadcast(L.dims), _pow)
                tol = {lab: (16 * EPS * abs(as_float(v)) if not (isnan(v) or math.isinf(as_float(v))) else 0.0) for lab, v in ref.cell.items()}
                if any(isinstance(v, float) and math.isinf(v) for v in ref.cell.values()):
                    rec.skip(M, "overflowing power")
                    return
        rec.event(M, sig=sig, cls=cls, sample={"op": opn, "x_dims": list(xs.letters), "x_shape": list(xs.shape),
                                               "y": ysig, "regime": reg, "expected_dims": None if ref is None else list(ref.letters)})
        if must_raise:
            if call.exc is None:
                viol(call, "accepted-foreign-dimension", **describe(call, xs, ys, num))
            return
        if call.exc is not None:
            viol(call, "raised-on-valid-operands", exc=exc_text(call.exc), **describe(call, xs, ys, num))
            return
        res = call.result
        if not isinstance(res, fd.FlodymArray):
            viol(call, "result-not-an-array", got=repr(res)[:100])
            return
        rs = Snap(res)
        if not rs.ok or rs.values.shape != rs.shape:
            viol(call, "result-shape-differs-from-dims", result=rs.describe())
            return
        if tuple(rs.letters) != tuple(ref.letters):
            viol(call, "result-dimension-order", got=list(rs.letters), expected=list(ref.letters), **describe(call, xs, ys, num))
            return
        if rs.names != tuple(d[1] for d in ref.dims):
            viol(call, "result-dimension-names", got=list(rs.names))
            return
        d = compare_larr(LArr.from_snap(rs), ref, tol)
        if d is not None:
            viol(call, f"wrong-entry:{d[3]}:{reg}", diff=first_diff(d), regime=reg, **describe(call, xs, ys, num))

    def _is_pow2(v):
        if isinstance(v, int):
            a = abs(v)
            return a != 0 and a & (a - 1) == 0
        if isinstance(v, Fraction):
            n, d = abs(v.numerator), v.denominator
            return n != 0 and n & (n - 1) == 0 and d & (d - 1) == 0
        return False

    def _prod_tol(ref, exact_ok):
        tol = {}
        for lab, v in ref.cell.items():
            if isnan(v) or (isinstance(v, float) and math.isinf(v)):
                tol[lab] = 0.0
                continue
            f = as_float(v)
            if exact_ok and (isinstance(v, int) and abs(v) < 2**53 or isinstance(v, Fraction) and Fraction(f) == v):
                tol[lab] = 0.0
            else:
                tol[lab] = 4 * EPS * abs(f)
        return tol

    def binary(kind, reflected=False):
        def oracle(hub, call):
            xs = call.pre[0]
            other = call.arg(1)
            if not isinstance(xs, Snap):
                return
            if isinstance(other, fd.FlodymArray):
                ys = call.pre[1] if len(call.pre) > 1 else call.kwpre.get("other")
                if reflected:
                    return  # python only dispatches the reflected form for non-arrays on the left
                judge(call, kind, xs, ys, None)
            elif is_real_number(other):
                judge(call, kind, xs, None, other, reflected=reflected)
            else:
                rec.event(M, sig=f"{call.op}|bad-operand|{type(other).__name__}", cls="bad-operand")
                if call.exc is None:
                    viol(call, "accepted-non-numeric-operand", other=repr(other)[:80])

        return oracle

    for name, kind in [("__add__", "add"), ("__sub__", "sub"), ("__mul__", "mul"), ("__truediv__", "div"), ("__pow__", "pow"),
                       ("minimum", "min"), ("maximum", "max")]:
        hub.on(f"FlodymArray.{name}", binary(kind))
    for name, kind in [("__radd__", "add"), ("__rsub__", "sub"), ("__rmul__", "mul"), ("__rtruediv__", "div")]:
        hub.on(f"FlodymArray.{name}", binary(kind, reflected=True))

    def unary(kind):
        def oracle(hub, call):
            xs = call.pre[0]
            if not isinstance(xs, Snap) or not xs.ok:
                return
            if xs.values.size > MAX_CELLS or not judgeable_dtype(xs.values):
                rec.skip(M, "unary: too large or non-real")
                return
            inplace = bool(call.arg(1, "inplace", False)) if kind in ("absm", "sign") else False
            X = LArr.from_snap(xs)
            f = {"neg": lambda v: v if isnan(v) else -v, "abs": nabs, "absm": nabs,
                 "sign": lambda v: v if isnan(v) else (v > 0) - (v < 0)}[kind]
            ref = X.map(f)
            opn = call.op.split(".")[-1]
            rec.event(M, sig=f"{opn}|{''.join(xs.letters)}:{lens(xs)}|{inplace}", cls=f"{opn}|{regime(X)}|unary")
            if call.exc is not None:
                viol(call, "raised-on-valid-operands", exc=exc_text(call.exc), x=xs.describe())
                return
            target = call.args[0] if inplace else call.result
            if not isinstance(target, fd.FlodymArray):
                viol(call, "result-not-an-array", got=repr(target)[:100])
                return
            d = compare_larr(LArr.from_snap(Snap(target)), ref, None)
            if d is not None:
                viol(call, f"wrong-entry:{d[3]}", diff=first_diff(d), x=xs.describe())

        return oracle

    hub.on("FlodymArray.__neg__", unary("neg"))
    hub.on("FlodymArray.__abs__", unary("abs"))
    hub.on("FlodymArray.abs", unary("absm"))
    hub.on("FlodymArray.sign", unary("sign"))
