"""C04 permutation shadow: a relational monitor.  When an operation is observed, every participating array
is rebuilt in every other storage order (values transposed accordingly), the same public call is replayed on the
real code with monitoring paused, and the result must carry the same entries under the same labels, its own
dimension order following the documented rule for the permuted operands."""

from __future__ import annotations

import itertools

import numpy as np

from ..model import Snap, DSnap
from .common import exc_text, is_real_number
from .index import parse_key

M = "permutation-shadow"
MAX_DIMS = 4
MAX_SIZE = 2000  # larger arrays (only the piggy-backed examples reach them) are not replayed


REBUILD_COUNT = [0]


def rebuild(fd, snap: Snap, order=None, cls=None):
    letters = list(snap.letters)
    order = list(order) if order is not None else letters
    axes = [letters.index(l) for l in order]
    dl = [fd.Dimension(letter=snap.letters[a], name=snap.names[a], items=list(snap.items[a]), **({"dtype": snap.dtypes[a]} if snap.dtypes[a] is not None else {})) for a in axes]
    base = np.array(snap.values, copy=True)
    REBUILD_COUNT[0] += 1
    if axes and REBUILD_COUNT[0] % 2:
        vals = np.transpose(base, axes)  # a transposed VIEW: same labels and values, not C-contiguous
    else:
        vals = np.ascontiguousarray(np.transpose(base, axes)) if axes else base
    return fd.FlodymArray(dims=fd.DimensionSet(dim_list=dl), values=vals, name=snap.name or "unnamed")


def rebuild_dimset(fd, ds: DSnap, order=None):
    letters = list(ds.letters)
    order = list(order) if order is not None else letters
    return fd.DimensionSet(dim_list=[fd.Dimension(letter=d[0], name=d[1], items=list(d[2])) for d in (ds.dims[letters.index(l)] for l in order)])


def numeric(snap) -> bool:
    return isinstance(snap, Snap) and snap.ok and snap.values.dtype.kind in "fiub"


def labelled(arr_or_snap):
    """dict frozenset{(letter, item)} -> value : independent of the storage order"""
    s = arr_or_snap if isinstance(arr_or_snap, Snap) else Snap(arr_or_snap)
    out = {}
    for idx in np.ndindex(*s.shape):
        key = frozenset((s.letters[k], s.items[k][i]) for k, i in enumerate(idx))
        out[key] = s.values[idx]
    return out


def same_entries(a: dict, b: dict, exact: bool, scale: float):
    if a.keys() != b.keys():
        return ("label-sets-differ", None)
    for k, va in a.items():
        vb = b[k]
        na, nb = (va != va), (vb != vb)
        if na or nb:
            if na != nb:
                return ("nan-pattern", sorted(map(str, k)))
            continue
        if exact:
            if va != vb:
                return ("value", sorted(map(str, k)), float(va), float(vb))
        elif abs(va - vb) > 1e-9 * scale + 1e-300:
            return ("value", sorted(map(str, k)), float(va), float(vb))
    return None


def exactish(*snaps):
    """values for which float arithmetic is exact in any order (dyadic, moderate size)"""
    tot = 0.0
    for s in snaps:
        v = np.asarray(s.values, dtype=float)
        if v.size == 0:
            continue
        if not np.all(np.isfinite(v)):
            return False
        if np.any(v * 1024 != np.round(v * 1024)):
            return False
        tot += float(np.sum(np.abs(v)))
    return tot < 2.0**40


def orders_of(letters, rng, limit):
    perms = list(itertools.permutations(letters))
    return perms


def register(hub, exhaustive: bool, rng, prop="C04", max_pairs=24):
    fd = hub.fd
    rec = hub.rec
    rec.require(M, 50)

    def pick(combos):
        combos = list(combos)
        if exhaustive or len(combos) <= max_pairs:
            return combos, True
        idx = rng.choice(len(combos), size=max_pairs, replace=False)
        return [combos[i] for i in sorted(idx)], False

    def viol(call, mech, **w):
        rec.violation(M, f"{call.op.split('.')[-1]}:{mech}", w, prop=prop)

    def outcome(f):
        try:
            return f(), None
        except Exception as e:
            return None, e

    def in_scale(*snaps):
        """sum of |input entries|: an order-free bound for the terms of any additive result (cancellation-safe)"""
        tot = 0.0
        for sn in snaps:
            if isinstance(sn, Snap) and sn.ok and sn.values.size and sn.values.dtype.kind in "fiu":
                v = np.abs(np.asarray(sn.values, dtype=float))
                v = v[np.isfinite(v)]
                tot += float(v.sum()) if v.size else 0.0
        return tot

    def judge(call, opn, primary, primary_exc, prm_result, prm_exc, expected_letters, exact, desc, scale_floor=0.0):
        """compare one permuted run with the primary run"""
        if (primary_exc is None) != (prm_exc is None):
            viol(call, "raises-in-one-storage-order-only", primary=exc_text(primary_exc) if primary_exc else "returned", permuted=exc_text(prm_exc) if prm_exc else "returned", **desc)
            return False
        if primary_exc is not None:
            return True
        if isinstance(primary, fd.FlodymArray):
            if not isinstance(prm_result, fd.FlodymArray):
                viol(call, "result-type-differs", **desc)
                return False
            ps = Snap(prm_result)
            if expected_letters is not None and tuple(ps.letters) != tuple(expected_letters):
                viol(call, "result-order-does-not-follow-the-documented-rule", got=list(ps.letters), expected=list(expected_letters), **desc)
                return False
            A, B = labelled(primary), labelled(ps)
            vals = [abs(float(v)) for v in A.values() if v == v and abs(float(v)) != float("inf")]
            d = same_entries(A, B, exact, max(max(vals) if vals else 1.0, scale_floor))
            if d is not None:
                viol(call, f"entries-differ-between-storage-orders:{d[0]}", diff=list(d[1:]), **desc)
                return False
        elif isinstance(primary, np.ndarray) and desc.get("values_layout") is not None:
            # a bare value array: its axes follow a documented order, so entries can be compared under their labels
            lay_a, lay_b, items_of = desc["values_layout"]
            if not isinstance(prm_result, np.ndarray) or prm_result.shape != tuple(len(items_of[l]) for l in lay_b):
                viol(call, "values-layout-does-not-follow-the-documented-rule", got=list(np.shape(prm_result)), expected_axes=list(lay_b), **{k_: v_ for k_, v_ in desc.items() if k_ != "values_layout"})
                return False
            def lab(arr, lay):
                out = {}
                for idx in np.ndindex(*arr.shape):
                    out[frozenset((lay[k_], items_of[lay[k_]][i_]) for k_, i_ in enumerate(idx))] = arr[idx]
                return out
            if primary.shape != tuple(len(items_of[l]) for l in lay_a):
                return True  # the primary run itself is judged by the reduce oracle
            A, B = lab(primary, lay_a), lab(prm_result, lay_b)
            vals = [abs(float(v)) for v in A.values() if v == v and abs(float(v)) != float("inf")]
            d = same_entries(A, B, exact, max(max(vals) if vals else 1.0, scale_floor))
            if d is not None:
                viol(call, f"entries-differ-between-storage-orders:{d[0]}", diff=list(d[1:]), **{k_: v_ for k_, v_ in desc.items() if k_ != "values_layout"})
                return False
        return True

    # ------------------------------------------------------------------ binary arithmetic
    RULES = {
        "__add__": "common", "__sub__": "common", "minimum": "common", "maximum": "common",
        "__mul__": "union", "__truediv__": "union", "__pow__": "left",
    }
    FUN = {
        "__add__": lambda a, b: a + b, "__sub__": lambda a, b: a - b, "__mul__": lambda a, b: a * b, "__truediv__": lambda a, b: a / b,
        "__pow__": lambda a, b: a**b, "minimum": lambda a, b: a.minimum(b), "maximum": lambda a, b: a.maximum(b),
    }

    def o_binary(hub, call):
        opn = call.op.split(".")[-1]
        xs = call.pre[0]
        other = call.arg(1)
        if not numeric(xs) or len(xs.letters) > MAX_DIMS or xs.values.size > MAX_SIZE:
            return
        if isinstance(other, fd.FlodymArray):
            ys = call.pre[1]
            if not numeric(ys) or len(ys.letters) > MAX_DIMS:
                return
        elif is_real_number(other):
            ys = None
        else:
            return
        combos, full = pick((px, py) for px in itertools.permutations(xs.letters) for py in (itertools.permutations(ys.letters) if ys is not None else [None]))
        exact = exactish(xs, ys) if ys is not None else exactish(xs)
        if opn in ("__mul__", "__truediv__", "__pow__"):
            exact = True  # entry by entry (nothing is summed): every entry is the same one or two roundings whatever the storage order
        n = 0
        for px, py in combos:
            if px == xs.letters and (py is None or py == ys.letters):
                continue
            xp = rebuild(fd, xs, px)
            yp = rebuild(fd, ys, py) if ys is not None else other
            r, e = outcome(lambda: FUN[opn](xp, yp))
            rule = RULES[opn]
            if ys is None or rule == "left":
                exp = list(px)
            elif rule == "common":
                exp = [l for l in px if l in py]
            else:
                exp = list(px) + [l for l in py if l not in px]
            n += 1
            floor = in_scale(xs, ys) if opn in ("__add__", "__sub__", "minimum", "maximum") else 0.0
            if not judge(call, opn, call.result, call.exc, r, e, exp, exact, dict(x_order=list(px), y_order=list(py) if py else None, x_dims=list(xs.letters), y_dims=list(ys.letters) if ys else None,
                                                                                     x_shape=list(xs.shape)), scale_floor=floor):
                break
        if n:
            rec.event(M, sig=f"{opn}|{''.join(xs.letters)}:{xs.shape}|{''.join(ys.letters) + ':' + str(ys.shape) if ys is not None else 'num'}|{exact}", cls=f"{opn}|{'all-orders' if full else 'sampled-orders'}|{'exact' if exact else 'real'}", n=n,
                      sample={"op": opn, "x_dims": list(xs.letters), "y_dims": list(ys.letters) if ys is not None else None, "orders_replayed": n})

    for name in RULES:
        hub.on(f"FlodymArray.{name}", o_binary)

    # ------------------------------------------------------------------ reductions
    def o_unary_method(method, rule, extra_array_arg=None):
        def oracle(hub, call):
            xs = call.pre[0]
            if not numeric(xs) or len(xs.letters) > MAX_DIMS or len(xs.letters) < 2 or xs.values.size > MAX_SIZE:
                return
            args = list(call.args[1:])
            kwargs = dict(call.kwargs)
            if kwargs.get("inplace") or (method == "cumsum" and len(args) > 1 and args[1]):
                return
            tds = None
            if method == "cast_to":
                tds = call.prearg(1, "target_dims")
                if not isinstance(tds, DSnap) or len(tds.letters) > MAX_DIMS:
                    return
                combos, full = pick((px, pt) for px in itertools.permutations(xs.letters) for pt in itertools.permutations(tds.letters))
            else:
                combos, full = pick((px, None) for px in itertools.permutations(xs.letters))
            exact = exactish(xs) and method != "get_shares_over"
            n = 0
            for px, pt in combos:
                if px == xs.letters and (pt is None or pt == tds.letters):
                    continue
                xp = rebuild(fd, xs, px)
                if method == "cast_to":
                    tp = rebuild_dimset(fd, tds, pt)
                    r, e = outcome(lambda: xp.cast_to(tp))
                    exp = list(pt)
                else:
                    r, e = outcome(lambda: getattr(xp, method)(*args, **kwargs))
                    exp = rule(call, xs, px, args, kwargs)
                n += 1
                floor = in_scale(xs) if method in ("sum_to", "sum_over", "cumsum", "sum_values_over", "sum_values_to") else 0.0
                desc = dict(x_order=list(px), target_order=list(pt) if pt else None, x_dims=list(xs.letters), args=repr(args)[:100])
                if method in ("sum_values_over", "sum_values_to"):
                    lay_primary = rule(call, xs, xs.letters, args, kwargs)
                    if lay_primary is None or exp is None:
                        exp_for = None
                    desc["values_layout"] = None if (lay_primary is None or exp is None) else (list(lay_primary), list(exp), {l: xs.items[xs.letters.index(l)] for l in xs.letters})
                if not judge(call, method, call.result, call.exc, r, e, exp, exact, desc, scale_floor=floor):
                    break
            if n:
                rec.event(M, sig=f"{method}|{''.join(xs.letters)}:{xs.shape}|{repr(args)[:60]}|{'' if tds is None else ''.join(tds.letters)}", cls=f"{method}|{'all-orders' if full else 'sampled-orders'}|{'exact' if exact else 'real'}", n=n)

        return oracle

    def resolve(xs, spec):
        out = []
        for s in spec:
            if isinstance(s, fd.Dimension):
                out.append(s.letter)
            elif s in xs.letters:
                out.append(s)
            elif s in xs.names:
                out.append(xs.letters[xs.names.index(s)])
            else:
                return None
        return out

    hub.on("FlodymArray.sum_to", o_unary_method("sum_to", lambda call, xs, px, a, k: resolve(xs, a[0] if a else k.get("result_dims", ()))))
    hub.on("FlodymArray.sum_over", o_unary_method("sum_over", lambda call, xs, px, a, k: (lambda so: None if so is None else [l for l in px if l not in so])(resolve(xs, a[0] if a else k.get("sum_over_dims", ())))))
    hub.on("FlodymArray.sum_values_to", o_unary_method("sum_values_to", lambda call, xs, px, a, k: resolve(xs, a[0] if a else k.get("result_dims", ()))))
    hub.on("FlodymArray.sum_values_over", o_unary_method("sum_values_over", lambda call, xs, px, a, k: (lambda so: None if so is None else [l for l in px if l not in so])(resolve(xs, a[0] if a else k.get("sum_over_dims", ())))))
    hub.on("FlodymArray.cumsum", o_unary_method("cumsum", lambda call, xs, px, a, k: list(px)))
    hub.on("FlodymArray.get_shares_over", o_unary_method("get_shares_over", lambda call, xs, px, a, k: list(px)))
    hub.on("FlodymArray.cast_to", o_unary_method("cast_to", None))

    # ------------------------------------------------------------------ slice reads
    def o_getitem(hub, call):
        xs = call.pre[0]
        if not numeric(xs) or len(xs.letters) > MAX_DIMS or len(xs.letters) < 2 or xs.values.size > MAX_SIZE:
            return
        key = call.arg(1)
        if isinstance(key, dict) and any(hasattr(v, "__next__") for v in key.values()):
            return
        sel, status, kind = parse_key(fd, xs, key)
        combos, full = pick((px,) for px in itertools.permutations(xs.letters))
        n = 0
        for (px,) in combos:
            if px == xs.letters:
                continue
            xp = rebuild(fd, xs, px)
            r, e = outcome(lambda: xp[key])
            exp = None
            if status == "ok":
                exp = []
                for l in px:
                    s = sel.get(l)
                    if s is None:
                        exp.append(l)
                    elif s[0] == "subset":
                        exp.append(s[1][0])
                    elif s[0] == "many":
                        exp.append(l)
            n += 1
            if not judge(call, "__getitem__", call.result, call.exc, r, e, exp, True, dict(x_order=list(px), x_dims=list(xs.letters), x_shape=list(xs.shape), key=repr(key)[:160])):
                break
        if n:
            rec.event(M, sig=f"getitem|{''.join(xs.letters)}:{xs.shape}|{kind}|{status}|{sorted((k, v[0]) for k, v in sel.items())}", cls=f"__getitem__|{'all-orders' if full else 'sampled-orders'}|{kind}", n=n)

    hub.on("FlodymArray.__getitem__", o_getitem)

    # ------------------------------------------------------------------ assignment
    def o_setitem(hub, call):
        ts = call.pre[0]
        if not numeric(ts) or len(ts.letters) > MAX_DIMS or ts.values.size > MAX_SIZE:
            return
        key = call.arg(1)
        if isinstance(key, dict) and any(hasattr(v, "__next__") for v in key.values()):
            return
        rhs = call.arg(2)
        ss = call.pre[2] if len(call.pre) > 2 else None
        if isinstance(rhs, fd.FlodymArray):
            if not isinstance(ss, Snap) or not ss.ok or len(ss.letters) > MAX_DIMS:
                return
            combos, full = pick((pt, ps) for pt in itertools.permutations(ts.letters) for ps in itertools.permutations(ss.letters))
        elif is_real_number(rhs):
            combos, full = pick((pt, None) for pt in itertools.permutations(ts.letters))
        elif isinstance(rhs, np.ndarray) and isinstance(key, dict) and rhs.dtype.kind in "fiu":
            # a bare array fills the addressed region axis by axis, the region's axes being the target's dimensions (in ITS storage
            # order) without the singly addressed ones: for a permuted target the same labelled block is the transposed array
            sel, status, _ = parse_key(fd, ts, key)
            region = [l for l in ts.letters if sel.get(l, ("all",))[0] != "single"]
            if status != "ok" or rhs.ndim != len(region) or rhs.ndim < 1:
                return
            combos, full = pick((pt, "ndarray") for pt in itertools.permutations(ts.letters))
            ss = None
        else:
            return  # other right-hand sides are positional by definition
        if len(ts.letters) < 2 and (ss is None or len(ss.letters) < 2):
            return
        target_after = Snap(call.args[0])
        exact = exactish(ts, ss) if isinstance(ss, Snap) else exactish(ts)
        n = 0
        for pt, ps in combos:
            if pt == ts.letters and (ps is None or ps == "ndarray" or ps == ss.letters):
                continue
            tp = rebuild(fd, ts, pt)
            if ps == "ndarray":
                region_p = [l for l in pt if l in region]
                sp = np.ascontiguousarray(np.transpose(np.array(call.pre[2] if isinstance(call.pre[2], np.ndarray) else rhs), [region.index(l) for l in region_p]))
                ps = None
            else:
                sp = rebuild(fd, ss, ps) if ps is not None else rhs
            _, e = outcome(lambda: tp.__setitem__(key, sp))
            n += 1
            desc = dict(target_order=list(pt), source_order=list(ps) if ps else None, target_dims=list(ts.letters), source_dims=list(ss.letters) if isinstance(ss, Snap) else None, key=repr(key)[:160])
            if (call.exc is None) != (e is None):
                viol(call, "raises-in-one-storage-order-only", primary=exc_text(call.exc) if call.exc else "returned", permuted=exc_text(e) if e else "returned", **desc)
                break
            tps = Snap(tp)
            if tuple(tps.letters) != tuple(pt) or not tps.ok:
                viol(call, "target-dims-changed-in-permuted-run", **desc)
                break
            A, B = labelled(target_after), labelled(tps)
            vals = [abs(float(v)) for v in A.values() if v == v]
            d = same_entries(A, B, exact, max(max(vals) if vals else 1.0, in_scale(ss) if isinstance(ss, Snap) else 0.0))
            if d is not None:
                viol(call, f"target-entries-differ-between-storage-orders:{d[0]}", diff=list(d[1:]), **desc)
                break
        if n:
            rec.event(M, sig=f"setitem|{''.join(ts.letters)}:{ts.shape}|{''.join(ss.letters) if isinstance(ss, Snap) else 'num'}|{repr(key)[:50]}", cls=f"__setitem__|{'all-orders' if full else 'sampled-orders'}|{'array' if isinstance(ss, Snap) else 'number'}", n=n)

    hub.on("FlodymArray.__setitem__", o_setitem)

    # ------------------------------------------------------------------ split / stack
    def o_split(hub, call):
        xs = call.pre[0]
        if not numeric(xs) or len(xs.letters) > MAX_DIMS or len(xs.letters) < 2 or call.exc is not None:
            return
        letter = call.arg(1, "dim_letter")
        combos, full = pick((px,) for px in itertools.permutations(xs.letters))
        n = 0
        for (px,) in combos:
            if px == xs.letters:
                continue
            xp = rebuild(fd, xs, px)
            r, e = outcome(lambda: xp.split(letter))
            n += 1
            if e is not None:
                viol(call, "raises-in-one-storage-order-only", permuted=exc_text(e), x_order=list(px))
                break
            if list(r.keys()) != list(call.result.keys()):
                viol(call, "split-keys-differ-between-storage-orders", x_order=list(px))
                break
            bad = False
            for k in r:
                d = same_entries(labelled(call.result[k]), labelled(r[k]), True, 1.0)
                if d is not None:
                    viol(call, f"entries-differ-between-storage-orders:{d[0]}", item=repr(k), x_order=list(px), diff=list(d[1:]))
                    bad = True
                    break
            if bad:
                break
        if n:
            rec.event(M, sig=f"split|{''.join(xs.letters)}:{xs.shape}|{letter}", cls=f"split|{'all-orders' if full else 'sampled-orders'}", n=n)

    hub.on("FlodymArray.split", o_split)

    def o_stack(hub, call):
        arrs = call.arg(0, "flodym_arrays")
        dim = call.arg(1, "dimension")
        snaps = call.prearg(0, "flodym_arrays")
        if call.exc is not None or not isinstance(snaps, list) or not snaps or len(snaps[0].letters) > 3 or len(snaps[0].letters) < 2:
            return
        letters = snaps[0].letters
        if any((not numeric(sn)) or set(sn.letters) != set(letters) for sn in snaps):
            return
        combos, full = pick((px,) for px in itertools.permutations(letters))
        n = 0
        for (px,) in combos:
            if px == letters:
                continue
            # every input permuted the same way, and (hostile) the later inputs in yet another order
            for later in (px, tuple(reversed(px))):
                ins = [rebuild(fd, s, px if i == 0 else later) for i, s in enumerate(snaps)]
                r, e = outcome(lambda: fd.flodym_array_helper.flodym_array_stack(ins, dim))
                n += 1
                if not judge(call, "flodym_array_stack", call.result, None, r, e, list(px) + [dim.letter], True, dict(first_order=list(px), later_order=list(later))):
                    return
        if n:
            rec.event(M, sig=f"stack|{''.join(letters)}|{dim.letter}", cls=f"flodym_array_stack|{'all-orders' if full else 'sampled-orders'}", n=n)

    hub.on("flodym_array_stack", o_stack)
