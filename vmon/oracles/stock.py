"""Stock / lifetime-model oracles: C08 (survival tables), C03 (conservation), C09 (cohort tables),
and the shadow-run helpers used by C10, C16, C17."""

from __future__ import annotations

import hashlib
import itertools
import math

import numpy as np

from ..model import SURVIVAL, grid_bounds, grid_lengths, knife_edge, ref_sf_table, gauss_lobatto

M08I = "survival-invariants"
M08R = "survival-equals-distribution"
M03 = "stock-conservation"
M03B = "balance-self-check"
M09 = "cohort-tables"


def dt_of(items):
    return np.array([float(x) for x in grid_lengths(items)])


def lm_state(lm):
    """what a lifetime model holds now (public attributes only)"""
    tl = lm.time_letter
    items = list(lm.dims[tl].items)
    prms = {k: (None if v is None else np.array(v, dtype=float, copy=True)) for k, v in lm.prms.items()}
    return {"cls": type(lm).__name__, "letters": tuple(lm.dims.letters), "shape": tuple(lm.dims.shape), "time_items": items,
            "inflow_at": lm.inflow_at, "n_pts": lm.n_pts_per_interval, "prms": prms}


def state_key(st):
    h = hashlib.sha1()
    h.update(repr((st["cls"], st["letters"], st["shape"], st["time_items"], st["inflow_at"], st["n_pts"])).encode())
    for k in sorted(st["prms"]):
        v = st["prms"][k]
        h.update(k.encode())
        h.update(b"none" if v is None else v.tobytes())
    return h.hexdigest()


def reference_sf(st, idx):
    """reference survival table (list of lists) for the label combination idx of the non-time dims"""
    names, _ = SURVIVAL[st["cls"]]

    def prm_at(c):
        return tuple(float(st["prms"][n][(c,) + idx]) for n in names)

    return ref_sf_table(st["cls"], st["time_items"], st["inflow_at"], st["n_pts"], prm_at), prm_at


def check_tables(rec, st, sf, pdf, prop="C08", where=""):
    """Invariants + equality with the declared distribution.  sf/pdf: ndarrays (n_t, n_t, *rest) or None."""
    nt = len(st["time_items"])
    rest = st["shape"][1:]
    cfg = f"{st['cls']}|{st['inflow_at']}|n={st['n_pts']}|nt={nt}|rest={rest}"
    grid = grid_class(st["time_items"])

    def viol(mon, mech, **w):
        w.update(model=st["cls"], inflow_at=st["inflow_at"], n_pts=st["n_pts"], time_items=st["time_items"][:12], where=where)
        rec.violation(mon, mech, w, prop=prop)

    if sf is not None:
        rec.event(M08I, sig=cfg + "|" + grid, cls=f"invariants|{st['cls']}|{grid}")
        if sf.shape != (nt, nt) + rest:
            viol(M08I, "table-shape", got=list(sf.shape))
            return
        iu = np.triu_indices(nt, k=1)
        if np.any(sf[iu] != 0):
            viol(M08I, "nonzero-above-diagonal")
        if np.any(np.isnan(sf)):
            viol(M08I, "nan-in-survival-table")
            return
        if np.any(sf < -1e-12) or np.any(sf > 1 + 1e-12):
            viol(M08I, "survival-outside-unit-interval", min=float(sf.min()), max=float(sf.max()))
        for c in range(nt):
            col = sf[c:, c]
            if col.shape[0] > 1 and np.any(np.diff(col, axis=0) > 1e-12):
                viol(M08I, "survival-increases-with-age", cohort=c)
                break
        if pdf is not None:
            if pdf.shape != sf.shape:
                viol(M08I, "pdf-shape", got=list(pdf.shape))
            else:
                if np.any(pdf < -1e-12):
                    viol(M08I, "negative-outflow-probability", min=float(pdf.min()))
                if np.any(pdf[iu] != 0):
                    viol(M08I, "pdf-nonzero-above-diagonal")
                tot = sf + np.cumsum(pdf, axis=0)
                low = np.tril(np.ones((nt, nt), dtype=bool))
                bad = np.abs(tot - 1.0)[low] > 1e-11
                if np.any(bad):
                    viol(M08I, "survival-plus-cumulated-outflow-probability-not-one", worst=float(np.max(np.abs(tot - 1.0)[low])))
        # reference
        if any(v is None for v in st["prms"].values()):
            return
        work = nt * nt * max(1, int(np.prod(rest))) * max(1, st["n_pts"])
        idxs = list(itertools.product(*[range(n) for n in rest]))
        if work > 3_000_000:
            step = int(math.ceil(work / 1_000_000))
            idxs = idxs[::step]
            rec.count_info("survival_reference_label_combinations_sampled")
        for idx in idxs:
            ref, prm_at = reference_sf(st, idx)
            if knife_edge(st["cls"], st["time_items"], st["inflow_at"], st["n_pts"], prm_at):
                rec.skip(M08R, "fixed lifetime within 1e-9 of an age (knife edge)")
                continue
            R = np.array(ref)
            obs = sf[(slice(None), slice(None)) + idx]
            d = np.abs(obs - R)
            rec.event(M08R, sig=cfg + f"|{grid}|{'tv' if _time_varying(st, idx) else 'const'}", cls=f"reference|{st['cls']}|{st['inflow_at'] if st['n_pts'] == 1 else 'quad'}|{grid}",
                      sample={"model": st["cls"], "inflow_at": st["inflow_at"], "n_pts": st["n_pts"], "time_items": st["time_items"][:8], "params_cohort0": list(prm_at(0))})
            if np.any(d > 1e-11):
                t, c = np.unravel_index(np.argmax(d), d.shape)
                viol(M08R, f"survival-differs-from-declared-distribution:{st['cls']}", label_index=list(idx), year=int(t), cohort=int(c), observed=float(obs[t, c]), expected=float(R[t, c]),
                     params=list(prm_at(int(c))))
                break


def _time_varying(st, idx):
    for v in st["prms"].values():
        if v is not None:
            col = v[(slice(None),) + idx]
            if np.any(col != col[0]):
                return True
    return False


def grid_class(items):
    d = np.diff(np.array(items, dtype=float))
    if len(d) == 0:
        return "single"
    if np.all(d == 1):
        return "unit"
    if np.all(d == d[0]):
        return "constant"
    return "uneven"


def register_c08(hub, prop="C08"):
    fd = hub.fd
    rec = hub.rec
    rec.require(M08I, 10)
    rec.require(M08R, 10)
    seen = {}

    def o_table(which):
        def oracle(hub, call):
            lm = call.args[0]
            if call.exc is not None:
                return
            try:
                st = lm_state(lm)
            except Exception:
                return
            if st["cls"] not in SURVIVAL:
                return
            key = (state_key(st), which)
            if key in seen:
                rec.count_info("survival_table_reads_already_judged")
                return
            seen[key] = True
            if len(seen) > 5000:
                seen.clear()
            res = np.asarray(call.result)
            if which == "sf":
                check_tables(rec, st, res, None, prop, where="sf read")
            else:
                check_tables(rec, st, np.asarray(lm.sf), res, prop, where="pdf read")

        return oracle

    for cls in ("FixedLifetime", "NormalLifetime", "FoldedNormalLifetime", "LogNormalLifetime", "WeibullLifetime"):
        hub.on(f"{cls}.sf", o_table("sf"))
        hub.on(f"{cls}.pdf", o_table("pdf"))


def check_quadrature_tables(rec, fd, prop="C08"):
    """the shipped Gauss-Lobatto tables against independently computed rules, all 10"""
    import importlib

    gl = importlib.import_module("flodym.gauss_lobatto")
    M = "quadrature-tables"
    rec.require(M, 9)
    for n in range(2, 11):
        rec.event(M, sig=f"n={n}", cls="gauss-lobatto", sample={"n": n})
        try:
            nodes = list(gl.gl_nodes[n])
            weights = list(gl.gl_weights[n])
        except Exception as e:
            rec.violation(M, "rule-missing", {"n": n, "exc": repr(e)}, prop=prop)
            continue
        rn, rw = gauss_lobatto(n)
        if len(nodes) != n or len(weights) != n:
            rec.violation(M, "rule-length", {"n": n, "nodes": len(nodes), "weights": len(weights)}, prop=prop)
            continue
        order = np.argsort(nodes)
        nodes_s = np.array(nodes)[order]
        weights_s = np.array(weights)[order]
        if np.max(np.abs(nodes_s - np.array(rn))) > 1e-13 or np.max(np.abs(weights_s - np.array(rw))) > 1e-13:
            rec.violation(M, "rule-differs-from-gauss-lobatto", {"n": n, "nodes": nodes, "ref_nodes": rn, "weights": weights, "ref_weights": rw}, prop=prop)
        if abs(sum(weights) - 2.0) > 1e-13 or np.max(np.abs(nodes_s + nodes_s[::-1])) > 1e-13:
            rec.violation(M, "rule-not-symmetric-or-weights-do-not-sum-to-two", {"n": n, "sum_w": sum(weights)}, prop=prop)
    rec.exhaustive_spaces["all shipped Gauss-Lobatto rules n=2..10 (n=1 is the inflow_at point rule)"] = True


# ---------------------------------------------------------------------------
# C03 / C09 on compute()


def stock_arrays(s):
    return np.asarray(s.stock.values, dtype=float), np.asarray(s.inflow.values, dtype=float), np.asarray(s.outflow.values, dtype=float)


def bshape(v, nd):
    return v.reshape((-1,) + (1,) * (nd - 1))


def check_conservation(rec, s, prop="C03", where="compute"):
    tl = s.time_letter
    items = list(s.dims[tl].items)
    if len(items) < 3:
        rec.skip(M03, "fewer than three time items")
        return
    dt = dt_of(items)
    st, inf, out = stock_arrays(s)
    if st.size == 0:
        return
    if np.any(~np.isfinite(st)) or np.any(~np.isfinite(inf)) or np.any(~np.isfinite(out)):
        rec.skip(M03, "non-finite results (singular system)")
        return
    nd = st.ndim
    d = np.diff(st, axis=0, prepend=0.0) - bshape(dt, nd) * (inf - out)
    scale = np.max(np.abs(st)) + np.max(bshape(dt, nd) * np.abs(inf)) + np.max(bshape(dt, nd) * np.abs(out))
    cls = type(s).__name__
    solver = getattr(s, "solver", "")
    lmn = type(getattr(s, "lifetime_model", None)).__name__ if hasattr(s, "lifetime_model") else "-"
    g = grid_class(items)
    rec.event(M03, sig=f"{cls}|{solver}|{lmn}|{g}|nt={len(items)}|rest={st.shape[1:]}", cls=f"conservation|{cls}{('/' + solver) if solver else ''}|{g}",
              sample={"class": cls, "solver": solver, "lifetime_model": lmn, "time_items": items[:10], "shape": list(st.shape)})
    worst = float(np.max(np.abs(d)))
    if worst > 1e-9 * max(scale, 1e-300):
        t = int(np.unravel_index(np.argmax(np.abs(d)), d.shape)[0])
        rec.violation(M03, f"stock-change-differs-from-dt-times-net-inflow:{cls}:{g}-grid",
                      {"class": cls, "solver": solver, "lifetime_model": lmn, "time_items": items[:12], "dt": dt.tolist()[:12], "worst_residual": worst, "scale": float(scale), "at_time_index": t, "where": where}, prop=prop)


def check_cohorts(rec, s, prop="C09", where="compute"):
    tl = s.time_letter
    items = list(s.dims[tl].items)
    if len(items) < 3:
        return
    dt = dt_of(items)
    nt = len(items)
    st, inf, out = stock_arrays(s)
    try:
        sbc = np.asarray(s.get_stock_by_cohort(), dtype=float)
        obc = np.asarray(s.get_outflow_by_cohort(), dtype=float)
    except Exception as e:
        rec.violation(M09, "cohort-accessor-raised", {"exc": repr(e)[:200]}, prop=prop)
        return
    cls = type(s).__name__
    solver = getattr(s, "solver", "")
    g = grid_class(items)
    lmn = type(s.lifetime_model).__name__
    if np.any(~np.isfinite(st)) or np.any(~np.isfinite(inf)) or np.any(~np.isfinite(sbc)) or np.any(~np.isfinite(obc)):
        rec.skip(M09, "non-finite results (singular system)")
        return
    rec.event(M09, sig=f"{cls}|{solver}|{lmn}|{g}|nt={nt}|rest={st.shape[1:]}", cls=f"cohorts|{cls}{('/' + solver) if solver else ''}|{g}",
              sample={"class": cls, "solver": solver, "lifetime_model": lmn, "time_items": items[:10]})

    def viol(mech, **w):
        w.update({"class": cls, "solver": solver, "lifetime_model": lmn, "time_items": items[:12], "where": where})
        rec.violation(M09, f"{mech}:{cls}:{g}-grid", w, prop=prop)

    if sbc.shape != (nt,) + st.shape or obc.shape != (nt,) + st.shape:
        viol("cohort-table-shape", got=[list(sbc.shape), list(obc.shape)])
        return
    nd = st.ndim
    entered = bshape(dt, nd) * inf  # [c, ...] whole-interval inflow of cohort c
    scale = max(float(np.max(np.abs(entered))), float(np.max(np.abs(st))), 1e-300)
    tol = 1e-9 * scale
    iu = np.triu_indices(nt, k=1)
    if np.any(sbc[iu] != 0) or np.any(obc[iu] != 0):
        viol("cohort-table-nonzero-for-cohort-later-than-year")
    if np.max(np.abs(sbc.sum(axis=1) - st)) > tol:
        viol("stock-differs-from-sum-of-cohorts", worst=float(np.max(np.abs(sbc.sum(axis=1) - st))), scale=scale)
    if cls == "InflowDrivenDSM" and np.all(inf >= 0):
        # a sum of non-negative terms is accurate relative to ITSELF, however large other entries of the array are
        # (a stock obtained by cumulating inflow - outflow would lose its small entries to cancellation)
        sf_ = np.asarray(s.lifetime_model.sf, dtype=float)
        comp = (entered[np.newaxis, ...] * sf_).sum(axis=1)
        err = np.abs(st - comp)
        bad = err > 1e-9 * comp + 1e-300
        if np.any(bad):
            t_ = int(np.unravel_index(np.argmax(np.where(bad, err / np.maximum(comp, 1e-300), 0)), st.shape)[0])
            viol("stock-entry-inaccurate-relative-to-itself", year=t_, worst_relative=float(np.max(np.where(comp > 0, err / np.maximum(comp, 1e-300), 0))), dynamic_range=float(np.max(st) / max(np.min(st[st > 0]) if np.any(st > 0) else 1.0, 1e-300)))
    oscale = max(float(np.max(np.abs(out))), float(np.max(np.abs(inf))), 1e-300)
    if np.max(np.abs(obc.sum(axis=1) - out)) > 1e-9 * oscale:
        viol("outflow-differs-from-sum-of-cohorts", worst=float(np.max(np.abs(obc.sum(axis=1) - out))))
    sf = np.asarray(s.lifetime_model.sf, dtype=float)
    exp = entered[np.newaxis, ...] * sf  # [t, c, ...]
    if np.max(np.abs(sbc - exp)) > tol:
        t, c = np.unravel_index(np.argmax(np.abs(sbc - exp).reshape(nt, nt, -1).max(axis=2)), (nt, nt))
        viol("cohort-stock-differs-from-whole-interval-inflow-times-survival", worst=float(np.max(np.abs(sbc - exp))), year=int(t), cohort=int(c), dt_cohort=float(dt[c]))
    # conservation per cohort: entered = in stock + left so far (rates x interval lengths)
    left = np.cumsum(obc * bshape(dt, obc.ndim), axis=0)  # [t, c, ...]
    low = np.tril(np.ones((nt, nt), dtype=bool))
    resid = (sbc + left - entered[np.newaxis, ...])[low]
    if np.max(np.abs(resid)) > tol:
        viol("cohort-not-conserved", worst=float(np.max(np.abs(resid))), scale=scale)
    # non-increasing for non-negative inflow
    if np.all(inf >= 0):
        for c in range(nt):
            col = sbc[c:, c]
            if col.shape[0] > 1 and np.any(np.diff(col, axis=0) > tol):
                viol("cohort-stock-increases-over-time", cohort=c)
                break


def register_compute(hub, props=("C03", "C09")):
    fd = hub.fd
    rec = hub.rec
    if "C03" in props:
        rec.require(M03, 10)
    if "C09" in props:
        rec.require(M09, 10)

    def o_compute(hub, call):
        s = call.args[0]
        if call.exc is not None:
            return
        pre = call.pre[0]
        if "C03" in props and pre is not None:
            # the driver array (prescribed stock / given inflow) is an input of compute(), not a result
            cls = type(s).__name__
            drivers = {"StockDrivenDSM": ["stock"], "InflowDrivenDSM": ["inflow"], "SimpleFlowDrivenStock": ["inflow", "outflow"]}.get(cls, [])
            for dname in drivers:
                before = getattr(pre, dname, None)
                if before is not None:
                    rec.event(M03, sig=f"driver-kept|{cls}|{dname}", cls=f"driver-kept|{cls}")
                    from ..model import Snap as _Snap

                    if not _Snap(getattr(s, dname)).same(before):
                        rec.violation(M03, f"compute-overwrote-its-driver:{cls}:{dname}", {"class": cls, "solver": getattr(s, "solver", ""), "dims": list(s.dims.letters)}, prop="C03")
        if "C03" in props:
            check_conservation(rec, s)
            check_self_balance(rec, fd, s)
        if "C09" in props and hasattr(s, "lifetime_model"):
            check_cohorts(rec, s)

    for cls in ("SimpleFlowDrivenStock", "InflowDrivenDSM", "StockDrivenDSM"):
        hub.on(f"{cls}.compute", o_compute)


def check_self_balance(rec, fd, s, prop="C03"):
    """the library's own balance check accepts the computed stock and rejects a perturbed one"""
    tl = s.time_letter
    items = list(s.dims[tl].items)
    if len(items) < 3:
        return
    dt = dt_of(items)
    st, inf, out = stock_arrays(s)
    if st.size == 0 or np.any(~np.isfinite(st)) or np.any(~np.isfinite(inf)) or np.any(~np.isfinite(out)):
        return
    scale = np.max(np.abs(st)) + np.max(np.abs(inf)) * np.max(dt) + np.max(np.abs(out)) * np.max(dt)
    if scale > (1e6 if len(items) > 30 else 3e13):
        # (rounding grows with magnitude and with the number of steps: at 1e13 and up to 30 steps it stays two orders below one tonne)
        rec.skip(M03B, "values too large for the absolute 1-tonne threshold")
        return
    cls = type(s).__name__
    g = grid_class(items)
    rec.event(M03B, sig=f"{cls}|{g}|nt={len(items)}", cls=f"self-check|{cls}|{g}")

    def viol(mech, **w):
        w.update({"class": cls, "time_items": items[:12]})
        rec.violation(M03B, f"{mech}:{g}-grid", w, prop=prop)

    try:
        s.check_stock_balance()
    except Exception as e:
        viol("check_stock_balance-rejects-a-computed-stock", exc=repr(e)[:200])
        return
    try:
        b = np.asarray(s.get_stock_balance(), dtype=float)
        dtb = bshape(dt, b.ndim) if b.ndim else 1.0
        best = min(float(np.max(np.abs(b))), float(np.max(np.abs(b * dtb))), float(np.max(np.abs(b / dtb))))
        if best > 1e-6 * max(1.0, scale):
            viol("get_stock_balance-not-zero-for-a-computed-stock", worst=best)
    except Exception as e:
        viol("get_stock_balance-raised", exc=repr(e)[:200])
    # perturbation probes on the live object (restored afterwards)
    big = 1e3 * (1.0 + float(np.max(dt)))
    small = 0.05 / max(1.0, float(np.max(dt)), float(1.0 / np.min(dt))) / max(1, len(items))
    probes = [(name, where) for name in ("stock", "inflow", "outflow") for where in ("middle", "first-step", "last-step")]
    for name, where in probes:
        arr = getattr(s, name).values
        flat = {"middle": arr.size // 2, "first-step": 0, "last-step": arr.size - 1}[where]  # time is the first axis
        pos = tuple(int(x) for x in np.unravel_index(flat, arr.shape))
        old = arr[pos].copy()
        try:
            arr[pos] = old + big
            try:
                s.check_stock_balance()
                viol(f"check_stock_balance-accepts-a-perturbed-{name}" + ("" if where == "middle" else f":{where}"), delta=big)
            except Exception:
                pass
            arr[pos] = old + small
            try:
                s.check_stock_balance()
            except Exception as e:
                viol(f"check_stock_balance-rejects-a-tiny-perturbation-of-{name}", delta=small, exc=repr(e)[:120])
        finally:
            arr[pos] = old


# ---------------------------------------------------------------------------
# shadow-run helpers


def clone_lm(fd, lm, dims=None, prms=None, time_items=None):
    """fresh lifetime model of the same class holding the same (or given) parameter arrays"""
    st = lm_state(lm)
    cls = type(lm)
    d = dims if dims is not None else lm.dims.copy()
    kw = {k: (np.array(v, copy=True) if v is not None else None) for k, v in (prms or st["prms"]).items()}
    kw = {k: v for k, v in kw.items() if v is not None}
    return cls(dims=d, time_letter=lm.time_letter, inflow_at=lm.inflow_at, n_pts_per_interval=lm.n_pts_per_interval, **kw)


def fresh_stock(fd, s, cls=None, solver=None, stock=None, inflow=None, lm=None, same_lm=False):
    """fresh stock object (of class cls) with copies of the given driver values"""
    cls = cls or type(s)
    dims = s.dims.copy()
    kw = dict(dims=dims, time_letter=s.time_letter, name="twin")
    if hasattr(s, "lifetime_model") and "lifetime_model" in cls.model_fields:
        kw["lifetime_model"] = s.lifetime_model if same_lm else (lm if lm is not None else clone_lm(fd, s.lifetime_model))
    if "solver" in cls.model_fields:
        kw["solver"] = solver or getattr(s, "solver", "manual")
    if stock is not None:
        kw["stock"] = fd.StockArray(dims=dims, values=np.array(stock, dtype=float, copy=True))
    if inflow is not None:
        kw["inflow"] = fd.StockArray(dims=dims, values=np.array(inflow, dtype=float, copy=True))
    return cls(**kw)


def results_of(s):
    r = {"stock": np.array(s.stock.values, dtype=float, copy=True), "inflow": np.array(s.inflow.values, dtype=float, copy=True),
         "outflow": np.array(s.outflow.values, dtype=float, copy=True)}
    if hasattr(s, "lifetime_model"):
        r["stock_by_cohort"] = np.array(s.get_stock_by_cohort(), dtype=float, copy=True)
        r["outflow_by_cohort"] = np.array(s.get_outflow_by_cohort(), dtype=float, copy=True)
    return r


def first_interval_survival(lm):
    sf = np.asarray(lm.sf)
    nt = sf.shape[0]
    return float(np.min(sf[np.arange(nt), np.arange(nt)]))


def cond_estimate(lm):
    """max over label combinations of the infinity-norm condition number of the survival matrix"""
    sf = np.asarray(lm.sf, dtype=float)
    nt = sf.shape[0]
    flat = sf.reshape(nt, nt, -1)
    worst = 1.0
    for k in range(flat.shape[2]):
        A = flat[:, :, k]
        try:
            inv = np.linalg.inv(A)
        except Exception:
            return float("inf")
        worst = max(worst, float(np.linalg.norm(A, np.inf) * np.linalg.norm(inv, np.inf)))
    return worst
