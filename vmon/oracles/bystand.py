"""Bystander monitor: a live object's results are its own.

Every stock that has been computed and every lifetime model whose tables have been built is kept (a few of them, strongly
referenced, with a private copy of what it held).  Whenever ANY other object is computed, re-parameterised or read, every kept
object must still hold exactly what it held: results depend on an object's own inputs, never on what happened to another object
of the same class, shape or parameters (module-level caches, registries, work arrays and class attributes would show here).
An object's own compute() / set_prms() refreshes or drops its entry.  Drivers may legitimately write an object's *driver* array,
so only computed quantities are kept."""

from __future__ import annotations

import numpy as np

M = "bystanders-unchanged"
RING = 5
MAX_ENTRIES = 400_000

DRIVERS = {"StockDrivenDSM": ("stock",), "InflowDrivenDSM": ("inflow",), "SimpleFlowDrivenStock": ("inflow", "outflow")}


def _stock_results(s):
    cls = type(s).__name__
    out = {}
    for n in ("stock", "inflow", "outflow"):
        if n in DRIVERS.get(cls, ()):
            continue
        a = s.__dict__.get(n)
        if a is not None and isinstance(getattr(a, "values", None), np.ndarray):
            out[n] = a.values
    priv = getattr(s, "__pydantic_private__", None) or {}
    for n in ("_stock_by_cohort", "_outflow_by_cohort"):
        v = priv.get(n)
        if isinstance(v, np.ndarray):
            out[n] = v
    return out


def _lm_tables(lm):
    priv = getattr(lm, "__pydantic_private__", None) or {}
    return {n: v for n in ("_sf", "_pdf") if isinstance((v := priv.get(n)), np.ndarray)}


def register(hub, prop):
    fd = hub.fd
    rec = hub.rec
    rec.require(M, 20)
    ring = []  # [obj, kind, {name: copy}]

    def drop(ent):
        ring[:] = [e for e in ring if e is not ent]  # by identity: comparing entries would compare pydantic models field by field

    def same(cur, snap):
        if cur.keys() != snap.keys():
            return [k for k in set(cur) ^ set(snap)]
        return [k for k in snap if cur[k].shape != snap[k].shape or not np.array_equal(cur[k], snap[k], equal_nan=True)]

    def scan(active, op):
        n = 0
        for ent in list(ring):
            obj, kind, snap = ent
            if obj is active or (kind == "stock" and obj.__dict__.get("lifetime_model") is active) or (kind == "lm" and getattr(active, "__dict__", {}).get("lifetime_model") is obj):
                continue
            if kind == "stock" and isinstance(active, fd.Stock):
                mine = {id(active.__dict__.get(n_)) for n_ in ("stock", "inflow", "outflow")}
                if any(id(obj.__dict__.get(n_)) in mine for n_ in ("stock", "inflow", "outflow")):
                    drop(ent)  # the two stocks hold the very same array objects (to_stock_type hands them over): one set of data
                    continue
            cur = _stock_results(obj) if kind == "stock" else _lm_tables(obj)
            if kind == "lm":
                cur = {k: v for k, v in cur.items() if k in snap}  # a table built since (by the object's own stock) is no change
                if cur.keys() != snap.keys():
                    drop(ent)  # tables were dropped by the object's own re-parameterisation: nothing to compare
                    continue
            n += 1
            diff = same(cur, snap)
            if diff:
                rec.violation(M, f"{kind}-results-changed-while-another-object-was-used", {"changed": sorted(diff), "bystander": type(obj).__name__, "operation_on_other_object": op,
                                                                                          "other": type(active).__name__, "shape": list(next(iter(snap.values())).shape)}, prop=prop)
                drop(ent)
        if n:
            rec.event(M, sig=f"{op}|{n}", cls=f"bystanders|{op.split('.')[-1]}", n=n)

    def keep(obj, kind):
        cur = _stock_results(obj) if kind == "stock" else _lm_tables(obj)
        for ent in list(ring):
            if ent[0] is obj:
                drop(ent)
        if not cur or sum(v.size for v in cur.values()) > MAX_ENTRIES:
            return
        ring.append([obj, kind, {k: np.array(v, copy=True) for k, v in cur.items()}])
        while len(ring) > RING:
            ring.pop(0)

    def o_compute(hub, call):
        s = call.args[0]
        if call.depth == 0:
            scan(s, call.op)
        if call.exc is None:
            keep(s, "stock")
            lm = s.__dict__.get("lifetime_model")
            if lm is not None and not isinstance(lm, type):
                keep(lm, "lm")
        else:
            for ent in list(ring):
                if ent[0] is s or ent[0] is s.__dict__.get("lifetime_model"):
                    drop(ent)

    def o_lm(hub, call):
        lm = call.args[0]
        if call.depth == 0:  # reads nested inside a compute() are covered by the scan at its exit
            scan(lm, call.op)
        short = call.op.split(".")[-1]
        for ent in list(ring):
            if ent[0] is lm:
                drop(ent)
        if short in ("sf", "pdf") and call.exc is None:
            keep(lm, "lm")

    WATCHED = {f"{c}.{n}" for c in ("SimpleFlowDrivenStock", "InflowDrivenDSM", "StockDrivenDSM") for n in ("compute", "to_stock_type")} | {
        f"{c}.set_prms" for c in ("FixedLifetime", "NormalLifetime", "FoldedNormalLifetime", "LogNormalLifetime", "WeibullLifetime")}  # reading tables changes nothing

    def on_paused(op, args):
        # the harness itself used a live object with monitoring paused (twins, probes): what it did to that object is not observed,
        # so the object (and a stock built on that lifetime model) leaves the ring
        if op in WATCHED and args and ring:
            o = args[0]
            for ent in list(ring):
                if ent[0] is o or ent[0].__dict__.get("lifetime_model") is o or o.__dict__.get("lifetime_model") is ent[0]:
                    drop(ent)

    hub.paused_hooks.append(on_paused)
    for cls in ("SimpleFlowDrivenStock", "InflowDrivenDSM", "StockDrivenDSM"):
        hub.on(f"{cls}.compute", o_compute)
    for cls in ("FixedLifetime", "NormalLifetime", "FoldedNormalLifetime", "LogNormalLifetime", "WeibullLifetime"):
        for n in ("set_prms", "sf", "pdf"):
            hub.on(f"{cls}.{n}", o_lm)
