"""Helpers shared by the array oracles: regimes, tolerances, signatures."""

from __future__ import annotations

import math
import numbers
from fractions import Fraction

import numpy as np

from ..model import EPS, LArr, Snap, as_float, isnan

MAX_CELLS = 6000  # complete evaluation up to this many output entries; larger calls are counted as skipped


def is_real_number(x) -> bool:
    return isinstance(x, numbers.Real) and not isinstance(x, (bool, np.bool_))


def vals(*larrs):
    for a in larrs:
        yield from a.cell.values()


def has_nan(*larrs) -> bool:
    return any(isnan(v) for v in vals(*larrs))


def has_inf(*larrs) -> bool:
    return any(isinstance(v, float) and math.isinf(v) for v in vals(*larrs))


Q = 20


def additive_exact(*larrs) -> bool:
    """True if float addition/subtraction of these values is exact in any order."""
    tot = 0
    for v in vals(*larrs):
        if isinstance(v, float):  # nan / inf
            if isnan(v):
                continue
            return False
        if isinstance(v, Fraction):
            d = v.denominator
            if d & (d - 1) or d > (1 << Q):
                return False
        tot += abs(v)
    return tot * (1 << Q) < (1 << 53)


def regime(*larrs) -> str:
    if has_nan(*larrs):
        return "taint"
    if additive_exact(*larrs):
        return "exact"
    return "real"


def lens(s: Snap) -> str:
    return "x".join(str(len(i)) for i in s.items)


def same_universe(a: Snap, b: Snap) -> bool:
    """Dimensions sharing a letter must be the same dimension (one common dimension set)."""
    da = {l: (n, it) for l, n, it in a.dims_tuple()}
    for l, n, it in b.dims_tuple():
        if l in da and da[l] != (n, it):
            return False
    return True


def unique_items(s: Snap) -> bool:
    return all(len(set(it)) == len(it) for it in s.items)


def sum_tolerance(X: LArr, keep, extra=None) -> dict:
    """Per-label absolute tolerance for a marginal sum: 64 n eps sum|terms| (backward-error bound, order-free)."""
    n = max(1, X.count_terms(keep))
    A = X.absarr().marginal(keep)
    return {lab: 64 * n * EPS * as_float(v) if not isnan(v) else 0.0 for lab, v in A.cell.items()}


def rel_tolerance(ref: LArr, k=8) -> dict:
    return {lab: (k * EPS * abs(as_float(v)) if not (isnan(v) or (isinstance(v, float) and math.isinf(v))) else 0.0) for lab, v in ref.cell.items()}


def exc_text(e) -> str:
    return f"{type(e).__name__}: {str(e)[:300]}"


def first_diff(d):
    """format compare_larr's result"""
    if d is None:
        return None
    lab, o, e, kind = d
    return {"label": list(lab) if isinstance(lab, tuple) else lab, "observed": o, "expected": e, "kind": kind}


def judgeable_dtype(values) -> bool:
    """real dtypes whose arithmetic the float64-based tolerances describe (float32/float16 results are rounded coarser)"""
    dt = values.dtype
    if dt.kind in "iu":
        return True
    return dt.kind == "f" and dt.itemsize >= 8
