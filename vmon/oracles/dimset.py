"""C14 oracles: DimensionSet / Dimension operations against the ordered-list model LDimSet."""

from __future__ import annotations

from ..model import DSnap, LDimSet

PROBE_LETTER = "Ω"  # a letter no generator uses


def dkey(d):
    return (d.letter, d.name, tuple(d.items))


def model_of(snap: DSnap) -> LDimSet:
    return LDimSet(snap.dims)


def as_model_other(fd, other):
    if isinstance(other, fd.DimensionSet):
        return LDimSet([dkey(d) for d in other.dim_list])
    if isinstance(other, fd.Dimension):
        return LDimSet([dkey(other)])
    return None


def _cls(op, recv, extra=""):
    return f"{op}|n={len(recv.dims)}|{extra}"


def register(hub, prop="C14"):
    fd = hub.fd
    rec = hub.rec
    M = "dimset-model"
    MI = "dimset-independence"
    rec.require(M, 50)
    rec.require(MI, 20)

    def viol(call, mech, **w):
        w.update(op=call.op, receiver=[d[0] for d in call.pre[0].dims] if isinstance(call.pre[0], DSnap) else None)
        rec.violation(M, f"{call.op.split('.')[-1]}:{mech}", w, prop=prop)

    def expect_result(call, recv: DSnap, expected: LDimSet | None, inplace=False, must_raise=False, sig=""):
        """Common judgement: expected=None with must_raise -> exception required and receiver unchanged."""
        self = call.args[0]
        now = DSnap(self)
        opn = call.op.split(".")[-1]
        rec.event(M, sig=f"{opn}|{recv.letters}|{sig}", cls=_cls(opn, recv, "raise" if must_raise else ("inplace" if inplace else "pure")),
                  sample={"op": opn, "receiver": list(recv.letters), "arg": sig, "expected": None if expected is None else list(expected.letters)})
        if must_raise:
            if call.exc is None:
                viol(call, "accepted-what-must-be-rejected", arg=sig, result=_letters(call.result), receiver_after=list(now.letters))
            if not now.same(recv):
                viol(call, "receiver-changed-by-rejected-call", arg=sig, after=list(now.letters))
            return
        if call.exc is not None:
            viol(call, "raised-on-valid-call", arg=sig, exc=repr(call.exc)[:300])
            return
        if inplace:
            if call.result is not None:
                viol(call, "inplace-returned-something", arg=sig)
            if now.dims != tuple(expected.dims):
                viol(call, "inplace-result-differs-from-model", arg=sig, after=list(now.letters), expected=list(expected.letters))
            return
        # out of place
        if not now.same(recv):
            viol(call, "receiver-changed-by-out-of-place-op", arg=sig, after=list(now.letters))
        res = call.result
        if not isinstance(res, fd.DimensionSet):
            viol(call, "result-not-a-dimension-set", arg=sig, result=repr(res)[:100])
            return
        got = DSnap(res)
        if got.dims != tuple(expected.dims):
            viol(call, "result-differs-from-model", arg=sig, result=list(got.letters), expected=list(expected.letters))
        if len(set(got.letters)) != len(got.letters):
            viol(call, "duplicate-letters-in-result", arg=sig, result=list(got.letters))
        independence_probe(call, res, self, recv)

    def independence_probe(call, res, recv_obj, recv_snap):
        """Editing the result in place must not reach the receiver (and vice versa)."""
        if res is recv_obj:
            rec.violation(MI, f"{call.op.split('.')[-1]}:returns-receiver-itself", {"op": call.op, "receiver": list(recv_snap.letters)}, prop=prop)
            return
        probe = fd.Dimension(name="vmon probe", letter=PROBE_LETTER, items=["p"])
        rec.event(MI, sig=f"{call.op}|{recv_snap.letters}", cls=f"probe|{call.op.split('.')[-1]}")
        try:
            res.append(probe, inplace=True)
        except Exception as e:
            rec.skip(MI, f"probe append failed: {type(e).__name__}")
            return
        try:
            if not DSnap(recv_obj).same(recv_snap):
                rec.violation(MI, f"{call.op.split('.')[-1]}:result-shares-state-with-receiver",
                              {"op": call.op, "receiver_before": list(recv_snap.letters), "receiver_after_editing_result": list(DSnap(recv_obj).letters)}, prop=prop)
        finally:
            try:
                res.drop(PROBE_LETTER, inplace=True)
            except Exception:
                pass
            # if the list was shared, the drop above repaired the receiver as well
        # reverse direction
        try:
            before = DSnap(res)
            recv_obj.append(probe, inplace=True)
            if not DSnap(res).same(before):
                rec.violation(MI, f"{call.op.split('.')[-1]}:receiver-shares-state-with-result",
                              {"op": call.op, "result_before": list(before.letters), "result_after_editing_receiver": list(DSnap(res).letters)}, prop=prop)
        except Exception:
            pass
        finally:
            try:
                recv_obj.drop(PROBE_LETTER, inplace=True)
            except Exception:
                pass

    def _letters(x):
        try:
            return list(DSnap(x).letters)
        except Exception:
            return repr(x)[:80]

    # ---- set operators --------------------------------------------------
    def binop(kind):
        def oracle(hub, call):
            recv = call.pre[0]
            if not isinstance(recv, DSnap):
                return
            other = call.arg(1, "other")
            om = as_model_other(fd, other)
            m = model_of(recv)
            if om is None:
                expect_result(call, recv, None, must_raise=True, sig=f"other={type(other).__name__}")
                return
            # where the operands hold different dimensions under one letter, the operators go by letter and what they keep from the
            # left operand is the left operand's dimension (the model does the same)
            sig = f"{kind}|{om.letters}|{'dim' if isinstance(other, fd.Dimension) else 'set'}"
            if kind == "add":
                if m.inter(om).dims:
                    expect_result(call, recv, None, must_raise=True, sig=sig)
                else:
                    expect_result(call, recv, m.union(om), sig=sig)
                return
            exp = {"union": m.union, "inter": m.inter, "diff": m.diff, "xor": m.xor}[kind](om)
            expect_result(call, recv, exp, sig=sig)
            # the other operand must be unchanged as well
            if isinstance(other, fd.DimensionSet) and isinstance(call.prearg(1, "other"), DSnap):
                if not DSnap(other).same(call.prearg(1, "other")):
                    viol(call, "right-operand-changed", arg=sig)

        return oracle

    for name, kind in [("union_with", "union"), ("__or__", "union"), ("intersect_with", "inter"), ("__and__", "inter"),
                       ("difference_with", "diff"), ("__sub__", "diff"), ("__xor__", "xor"), ("__add__", "add")]:
        hub.on(f"DimensionSet.{name}", binop(kind))

    # ---- copy / subset ----------------------------------------------------
    def o_copy(hub, call):
        recv = call.pre[0]
        expect_result(call, recv, model_of(recv), sig="copy")

    hub.on("DimensionSet.copy", o_copy)

    def o_get_subset(hub, call):
        recv = call.pre[0]
        keys = call.arg(1, "dims")
        m = model_of(recv)
        if keys is None:
            expect_result(call, recv, m, sig="subset:None")
            return
        keys = list(keys)
        if len(set(keys)) != len(keys) or len({m.get(k)[0] for k in keys if m.has(k)}) != len([k for k in keys if m.has(k)]):
            rec.skip(M, "get_subset with repeated dimensions (outside the statement)")
            return
        if any(not m.has(k) for k in keys):
            expect_result(call, recv, None, must_raise=True, sig=f"subset:{keys}")
        else:
            expect_result(call, recv, m.subset(keys), sig=f"subset:{keys}")

    hub.on("DimensionSet.get_subset", o_get_subset)

    def o_getitem(hub, call):
        recv = call.pre[0]
        key = call.arg(1, "key")
        m = model_of(recv)
        if isinstance(key, tuple):
            if len(set(key)) != len(key):
                return
            if any(not (isinstance(k, str) and m.has(k)) for k in key):
                expect_result(call, recv, None, must_raise=True, sig=f"getitem:{key}")
            else:
                expect_result(call, recv, m.subset(list(key)), sig=f"getitem:{key}")
            return
        rec.event(M, sig=f"getitem|{recv.letters}|{key!r}", cls="lookup|getitem")
        if isinstance(key, bool):
            return
        if isinstance(key, str):
            if not m.has(key):
                if call.exc is None:
                    viol(call, "lookup-of-unknown-key-succeeded", key=key)
                return
            exp = m.get(key)
        elif isinstance(key, int):
            if not (-len(m.dims) <= key < len(m.dims)):
                if call.exc is None:
                    viol(call, "lookup-of-bad-position-succeeded", key=key)
                return
            exp = m.dims[key]
        else:
            if call.exc is None:
                viol(call, "lookup-with-bad-key-type-succeeded", key=repr(key))
            return
        if call.exc is not None:
            viol(call, "lookup-raised", key=key, exc=repr(call.exc)[:200])
        elif dkey(call.result) != exp:
            viol(call, "lookup-returned-wrong-dimension", key=key, got=call.result.letter, expected=exp[0])

    hub.on("DimensionSet.__getitem__", o_getitem)

    def o_contains(hub, call):
        recv = call.pre[0]
        key = call.arg(1, "key")
        m = model_of(recv)
        if isinstance(key, fd.Dimension):
            exp = key.letter in m.letters
        elif isinstance(key, str):
            exp = m.has(key)
        else:
            return
        rec.event(M, sig=f"contains|{recv.letters}|{key if isinstance(key, str) else key.letter}", cls="lookup|contains")
        if call.exc is not None:
            viol(call, "membership-raised", exc=repr(call.exc)[:200])
        elif bool(call.result) != exp:
            viol(call, "membership-wrong", key=repr(key)[:60], got=call.result, expected=exp)

    hub.on("DimensionSet.__contains__", o_contains)

    def o_index(hub, call):
        recv = call.pre[0]
        key = call.arg(1, "key")
        m = model_of(recv)
        if not isinstance(key, str):
            return
        rec.event(M, sig=f"index|{recv.letters}|{key}", cls="lookup|index")
        if not m.has(key):
            if call.exc is None:
                viol(call, "index-of-unknown-key-succeeded", key=key)
            return
        if call.exc is not None:
            viol(call, "index-raised", key=key, exc=repr(call.exc)[:200])
        elif call.result != m.index(key):
            viol(call, "index-wrong", key=key, got=call.result, expected=m.index(key))

    hub.on("DimensionSet.index", o_index)

    def o_size(hub, call):
        recv = call.pre[0]
        key = call.arg(1, "key")
        m = model_of(recv)
        if not isinstance(key, str):
            return
        rec.event(M, sig=f"size|{recv.letters}|{key}", cls="lookup|size")
        if not m.has(key):
            if call.exc is None:
                viol(call, "size-of-unknown-key-succeeded", key=key)
            return
        if call.exc is not None:
            viol(call, "size-raised", key=key, exc=repr(call.exc)[:200])
        elif call.result != len(m.get(key)[2]):
            viol(call, "size-wrong", key=key, got=call.result, expected=len(m.get(key)[2]))

    hub.on("DimensionSet.size", o_size)

    # ---- mutators -----------------------------------------------------------
    def o_expand(hub, call):
        recv = call.pre[0]
        added = call.arg(1, "added_dims")
        inplace = bool(call.arg(2, "inplace", False))
        m = model_of(recv)
        try:
            added_m = [dkey(d) for d in added]
        except Exception:
            return
        if len({d[0] for d in added_m}) != len(added_m):
            rec.skip(M, "expand_by with repeated dimensions (outside the statement)")
            return
        sig = f"expand|{[d[0] for d in added_m]}|{inplace}"
        if any(d[0] in m.letters for d in added_m):
            expect_result(call, recv, None, must_raise=True, sig=sig)
        else:
            expect_result(call, recv, LDimSet(m.dims + added_m), inplace=inplace, sig=sig)

    hub.on("DimensionSet.expand_by", o_expand)
    hub.on("DimensionSet.extend", o_expand)

    def o_add_one(where):
        def oracle(hub, call):
            recv = call.pre[0]
            m = model_of(recv)
            if where == "insert":
                index = call.arg(1, "index")
                new_dim = call.arg(2, "new_dim")
                inplace = bool(call.arg(3, "inplace", False))
            else:
                index = None
                new_dim = call.arg(1, "new_dim")
                inplace = bool(call.arg(2, "inplace", False))
            if not isinstance(new_dim, fd.Dimension):
                expect_result(call, recv, None, must_raise=True, sig=f"{where}|non-dimension")
                return
            nd = dkey(new_dim)
            sig = f"{where}|{nd[0]}|{index}|{inplace}"
            if nd[0] in m.letters:
                expect_result(call, recv, None, must_raise=True, sig=sig)
                return
            dims = list(m.dims)
            if where == "append":
                dims.append(nd)
            elif where == "prepend":
                dims.insert(0, nd)
            else:
                if not isinstance(index, int) or isinstance(index, bool):
                    return
                dims.insert(index, nd)
            expect_result(call, recv, LDimSet(dims), inplace=inplace, sig=sig)

        return oracle

    hub.on("DimensionSet.append", o_add_one("append"))
    hub.on("DimensionSet.prepend", o_add_one("prepend"))
    hub.on("DimensionSet.insert", o_add_one("insert"))

    def o_drop(hub, call):
        recv = call.pre[0]
        key = call.arg(1, "key")
        inplace = bool(call.arg(2, "inplace", False))
        m = model_of(recv)
        if not isinstance(key, str):
            return
        sig = f"drop|{key}|{inplace}"
        if not m.has(key):
            expect_result(call, recv, None, must_raise=True, sig=sig)
            return
        d = m.get(key)
        expect_result(call, recv, LDimSet([x for x in m.dims if x != d]), inplace=inplace, sig=sig)

    hub.on("DimensionSet.drop", o_drop)
    hub.on("DimensionSet.remove", o_drop)

    def o_replace(hub, call):
        recv = call.pre[0]
        key = call.arg(1, "key")
        new_dim = call.arg(2, "new_dim")
        inplace = bool(call.arg(3, "inplace", False))
        m = model_of(recv)
        if not isinstance(key, str) or not isinstance(new_dim, fd.Dimension):
            return
        nd = dkey(new_dim)
        sig = f"replace|{key}|{nd[0]}|{inplace}"
        if not m.has(key):
            expect_result(call, recv, None, must_raise=True, sig=sig)
            return
        old = m.get(key)
        if nd[0] in m.letters and nd[0] != old[0]:
            expect_result(call, recv, None, must_raise=True, sig=sig)
            return
        if nd[0] == old[0]:
            rec.skip(M, "replace by a dimension re-using the replaced letter (either behaviour accepted)")
            return
        dims = [nd if x == old else x for x in m.dims]
        expect_result(call, recv, LDimSet(dims), inplace=inplace, sig=sig)

    hub.on("DimensionSet.replace", o_replace)

    # ---- constructor --------------------------------------------------------
    def o_init(hub, call):
        dl = call.kwargs.get("dim_list")
        if not isinstance(dl, (list, tuple)) or not all(isinstance(d, fd.Dimension) for d in dl):
            return  # other input forms (dictionaries, generators) are judged by the driver that makes them
        letters = [d.letter for d in dl]
        rec.event(M, sig=f"init|{letters}", cls="init|dup" if len(set(letters)) != len(letters) else "init|ok")
        if len(set(letters)) != len(letters):
            if call.exc is None:
                viol(call, "constructor-accepted-duplicate-letters", letters=letters)
            return
        if call.exc is not None:
            viol(call, "constructor-raised-on-distinct-letters", letters=letters, exc=repr(call.exc)[:200])
            return
        self = call.args[0]
        if [dkey(d) for d in self.dim_list] != [dkey(d) for d in dl]:
            viol(call, "constructor-order-differs", letters=letters, got=[d.letter for d in self.dim_list])
        if self.dim_list is dl:
            rec.violation(MI, "__init__:keeps-callers-list", {"letters": letters}, prop=prop)

    hub.on("DimensionSet.__init__", o_init)

    # ---- Dimension ------------------------------------------------------------
    def o_dim_add(hub, call):
        a = call.args[0]
        b = call.arg(1, "other")
        if isinstance(b, fd.Dimension):
            rec.event(M, sig=f"dimadd|{a.letter}|{b.letter}", cls="dimension|add")
            if a.letter == b.letter:
                if call.exc is None:
                    viol(call, "dimension-add-accepted-duplicate-letter", a=a.letter)
            elif call.exc is not None:
                viol(call, "dimension-add-raised", exc=repr(call.exc)[:200])
            elif [dkey(d) for d in call.result.dim_list] != [dkey(a), dkey(b)]:
                viol(call, "dimension-add-wrong", got=_letters(call.result))
        elif isinstance(b, fd.DimensionSet):
            bm = as_model_other(fd, b)
            rec.event(M, sig=f"dimadd|{a.letter}|{bm.letters}", cls="dimension|add-set")
            if a.letter in bm.letters:
                if call.exc is None:
                    viol(call, "dimension-plus-set-accepted-overlap", a=a.letter, b=list(bm.letters))
            elif call.exc is not None:
                viol(call, "dimension-plus-set-raised", exc=repr(call.exc)[:200])
            elif [dkey(d) for d in call.result.dim_list] != [dkey(a)] + list(bm.dims):
                viol(call, "dimension-plus-set-wrong", got=_letters(call.result), expected=[a.letter] + list(bm.letters))

    hub.on("Dimension.__add__", o_dim_add)

    def o_as_dimset(hub, call):
        a = call.args[0]
        rec.event(M, sig=f"asdimset|{a.letter}", cls="dimension|as_dimset")
        if call.exc is not None or [dkey(d) for d in call.result.dim_list] != [dkey(a)]:
            viol(call, "as_dimset-wrong", got=_letters(call.result) if call.exc is None else repr(call.exc))

    hub.on("Dimension.as_dimset", o_as_dimset)

    def o_is_subset(hub, call):
        a = call.args[0]
        b = call.arg(1, "other")
        if not isinstance(b, fd.Dimension):
            return
        exp = all(i in b.items for i in a.items)
        rec.event(M, sig=f"issubset|{a.letter}|{len(a.items)}|{len(b.items)}|{exp}", cls="dimension|is_subset")
        if call.exc is not None or bool(call.result) != exp:
            viol(call, "is_subset-wrong", a=list(a.items)[:8], b=list(b.items)[:8], got=repr(call.result))

    hub.on("Dimension.is_subset", o_is_subset)


def check_lookups(rec, fd, ds, model: LDimSet, prop="C14", absent=()):
    """Driver-side: every public view of a set agrees with the ordered-list model."""
    M = "dimset-lookups"
    rec.event(M, sig=f"{model.letters}", cls=f"lookups|n={len(model.dims)}")

    def bad(what, got, exp):
        rec.violation(M, f"lookups:{what}", {"letters": list(model.letters), "got": got, "expected": exp}, prop=prop)

    if tuple(ds.letters) != model.letters:
        bad("letters", list(ds.letters), list(model.letters))
        return
    if tuple(ds.names) != model.names:
        bad("names", list(ds.names), list(model.names))
    if tuple(ds.shape) != model.shape():
        bad("shape", list(ds.shape), list(model.shape()))
    n = 1
    for s in model.shape():
        n *= s
    if ds.total_size != n:
        bad("total_size", ds.total_size, n)
    if ds.ndim != len(model.dims) or len(ds) != len(model.dims):
        bad("ndim/len", [ds.ndim, len(ds)], len(model.dims))
    if bool(ds) != (len(model.dims) > 0):
        bad("bool", bool(ds), len(model.dims) > 0)
    if ds.string != "".join(model.letters):
        bad("string", ds.string, "".join(model.letters))
    if [(d.letter, d.name, tuple(d.items)) for d in ds] != list(model.dims):
        bad("iteration", [d.letter for d in ds], list(model.letters))
    if len(set(ds.letters)) != len(ds.letters):
        bad("duplicate-letters", list(ds.letters), None)
    for l, n in absent:
        for key in (l, n):
            try:
                if key in ds:
                    bad("absent-dimension-reported-as-member", key, None)
                    break
            except Exception as e:
                bad("membership-raised", key, repr(e)[:100])
            for f in (lambda: ds[key], lambda: ds.index(key), lambda: ds.size(key)):
                try:
                    f()
                except Exception:
                    continue
                bad("lookup-of-absent-dimension-succeeded", key, None)
                break
    for i, d in enumerate(model.dims):
        for key in (d[0], d[1]):
            try:
                if dkey(ds[key]) != d or ds.index(key) != i or ds.size(key) != len(d[2]) or key not in ds:
                    bad("by-key", key, d[0])
            except Exception as e:
                bad("by-key-raised", key, repr(e)[:100])
        try:
            if dkey(ds[i]) != d:
                bad("by-position", i, d[0])
        except Exception as e:
            bad("by-position-raised", i, repr(e)[:100])
