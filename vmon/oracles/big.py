"""Oracles for LARGE arrays (10^4 - 10^6 entries), where the label-keyed pure-Python reference is too slow.

The reference here is vectorised numpy, but deliberately written without einsum and without letter strings: axes are found by
looking letters up in Python lists, reductions are .sum(axis=...), alignment is np.transpose / reshape / broadcasting.  Values
are dyadic (sums exact in any order) or real (normwise-per-entry tolerance from the sum of absolute terms).  Size-dependent code
paths (blocking, other algorithms above a threshold, index types) are what these cases are for."""

from __future__ import annotations

import numpy as np

from ..model import EPS, Snap

M = "large-arrays"


def marginal(values, letters, keep):
    """sum over all axes not in keep; result axes in keep's order"""
    drop = tuple(i for i, l in enumerate(letters) if l not in keep)
    v = values.sum(axis=drop) if drop else values
    rest = [l for l in letters if l in keep]
    return np.transpose(v, [rest.index(l) for l in keep]) if rest != list(keep) else v


def expand(values, letters, target):
    """broadcast-ready view of values with axes in target's order (size-1 axes for target letters the array lacks)"""
    have = [l for l in target if l in letters]
    v = np.transpose(values, [letters.index(l) for l in have]) if have != list(letters) else values
    shape = [v.shape[have.index(l)] if l in have else 1 for l in target]
    return v.reshape(shape)


def check(rec, what, got, ref, abs_terms, n_terms, desc, exact, prop):
    """got/ref: ndarrays of equal shape; abs_terms: sum of |terms| per entry (for the tolerance)"""
    if got.shape != ref.shape:
        rec.violation(M, f"{what}:shape-differs", dict(desc, got=list(got.shape), expected=list(ref.shape)), prop=prop)
        return
    if exact:
        bad = ~((got == ref) | (np.isnan(got) & np.isnan(ref)))
    else:
        tol = 64 * max(1, n_terms) * EPS * abs_terms + 8 * EPS * np.abs(ref)
        bad = ~((np.abs(got - ref) <= tol) | (np.isnan(got) & np.isnan(ref)))
    if np.any(bad):
        idx = tuple(int(i) for i in np.argwhere(bad)[0])
        rec.violation(M, f"{what}:wrong-entry", dict(desc, first_bad_index=list(idx), observed=float(got[idx]), expected=float(ref[idx]), n_bad=int(bad.sum())), prop=prop)


def is_dyadic(*arrays):
    tot = 0.0
    for v in arrays:
        v = np.asarray(v, dtype=float)
        if not np.all(np.isfinite(v)) or np.any(v * 1024 != np.round(v * 1024)):
            return False
        tot += float(np.abs(v).sum())
    return tot < 2.0**40


def judge_binary(rec, fd, kind, x, y, result, exc, prop="C01"):
    xs, ys = Snap(x), Snap(y)
    lx, ly = list(xs.letters), list(ys.letters)
    vx, vy = np.asarray(xs.values, dtype=float), np.asarray(ys.values, dtype=float)
    desc = {"op": kind, "x_dims": lx, "x_shape": list(vx.shape), "y_dims": ly, "y_shape": list(vy.shape)}
    rec.event(M, sig=f"{kind}|{lx}:{vx.shape}|{ly}:{vy.shape}", cls=f"big|{kind}|{max(vx.size, vy.size) // 10000 * 10000}+", sample=desc)
    if exc is not None:
        rec.violation(M, f"{kind}:raised", dict(desc, exc=repr(exc)[:300]), prop=prop)
        return
    rs = Snap(result)
    if kind in ("add", "sub", "min", "max"):
        common = [l for l in lx if l in ly]
        mx, my = marginal(vx, lx, common), marginal(vy, ly, common)
        ref = {"add": mx + my, "sub": mx - my, "min": np.minimum(mx, my), "max": np.maximum(mx, my)}[kind]
        absx, absy = marginal(np.abs(vx), lx, common), marginal(np.abs(vy), ly, common)
        n = int(vx.size // max(1, mx.size) + vy.size // max(1, my.size))
        exp_letters = common
        abs_terms = absx + absy
    elif kind in ("mul", "div"):
        union = lx + [l for l in ly if l not in lx]
        ex, ey = expand(vx, lx, union), expand(vy, ly, union)
        ref = ex * ey if kind == "mul" else ex / ey
        exp_letters = union
        abs_terms = np.abs(ref)
        n = 1
    else:
        return
    if list(rs.letters) != exp_letters:
        rec.violation(M, f"{kind}:result-dimension-order", dict(desc, got=list(rs.letters), expected=exp_letters), prop=prop)
        return
    check(rec, kind, np.asarray(rs.values, dtype=float), np.asarray(ref, dtype=float), np.asarray(abs_terms, dtype=float), n, desc, is_dyadic(vx, vy) and kind != "div", prop)


def judge_reduce(rec, fd, kind, x, arg, result, exc, prop="C07", target_dims=None):
    xs = Snap(x)
    lx = list(xs.letters)
    vx = np.asarray(xs.values, dtype=float)
    desc = {"op": kind, "x_dims": lx, "x_shape": list(vx.shape), "arg": [str(a) for a in arg] if isinstance(arg, (list, tuple)) else str(arg)}
    rec.event(M, sig=f"{kind}|{lx}:{vx.shape}|{desc['arg']}", cls=f"big|{kind}", sample=desc)
    if exc is not None:
        rec.violation(M, f"{kind}:raised", dict(desc, exc=repr(exc)[:300]), prop=prop)
        return
    exact = is_dyadic(vx)
    if kind == "sum_to":
        keep = list(arg)
        ref, absr, n, exp = marginal(vx, lx, keep), marginal(np.abs(vx), lx, keep), vx.size // max(1, int(np.prod([vx.shape[lx.index(l)] for l in keep]))), keep
    elif kind == "sum_over":
        keep = [l for l in lx if l not in arg]
        ref, absr, n, exp = marginal(vx, lx, keep), marginal(np.abs(vx), lx, keep), vx.size // max(1, int(np.prod([vx.shape[lx.index(l)] for l in keep]))), keep
    elif kind == "cumsum":
        ax = lx.index(arg)
        ref = np.add.accumulate(vx, axis=ax)
        absr, n, exp = np.add.accumulate(np.abs(vx), axis=ax), vx.shape[ax], lx
    elif kind == "cast_to":
        tl = [d[0] for d in target_dims]
        ex = expand(vx, lx, tl)
        ref = np.broadcast_to(ex, [len(d[2]) for d in target_dims]).copy()
        absr, n, exp, exact = np.abs(ref), 1, tl, True
    elif kind == "shares":
        keep = [l for l in lx if l not in arg]
        tot = expand(marginal(vx, lx, keep), keep, lx)
        ref = vx / tot
        absr = np.abs(ref) * (1 + expand(marginal(np.abs(vx), lx, keep), keep, lx) / np.abs(tot))
        n, exp, exact = vx.size // max(1, tot.size), lx, False
    else:
        return
    rs = Snap(result)
    if list(rs.letters) != list(exp):
        rec.violation(M, f"{kind}:result-dimension-order", dict(desc, got=list(rs.letters), expected=list(exp)), prop=prop)
        return
    check(rec, kind, np.asarray(rs.values, dtype=float), np.asarray(ref, dtype=float), np.asarray(absr, dtype=float), n, desc, exact, prop)
