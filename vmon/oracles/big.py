"""Oracles for LARGE arrays (10^4 - 10^6 entries), where the label-keyed pure-Python reference is too slow.

The reference here is vectorised numpy, but deliberately written without einsum and without letter strings: axes are found by
looking letters up in Python lists, reductions are .sum(axis=...), alignment is np.transpose / reshape / broadcasting.  Values
are dyadic (sums exact in any order) or real (normwise-per-entry tolerance from the sum of absolute terms).  Size-dependent code
paths (blocking, other algorithms above a threshold, index types) are what these cases are for."""

from __future__ import annotations

import numpy as np

from ..model import EPS, Snap

M = "large-arrays"


def marginal(values, letters, keep):
    """sum over all axes not in keep; result axes in keep's order"""
    drop = tuple(i for i, l in enumerate(letters) if l not in keep)
    v = values.sum(axis=drop) if drop else values
    rest = [l for l in letters if l in keep]
    return np.transpose(v, [rest.index(l) for l in keep]) if rest != list(keep) else v


def expand(values, letters, target):
    """broadcast-ready view of values with axes in target's order (size-1 axes for target letters the array lacks)"""
    have = [l for l in target if l in letters]
    v = np.transpose(values, [letters.index(l) for l in have]) if have != list(letters) else values
    shape = [v.shape[have.index(l)] if l in have else 1 for l in target]
    return v.reshape(shape)


def check(rec, what, got, ref, abs_terms, n_terms, desc, exact, prop):
    """got/ref: ndarrays of equal shape; abs_terms: sum of |terms| per entry (for the tolerance)"""
    if got.shape != ref.shape:
        rec.violation(M, f"{what}:shape-differs", dict(desc, got=list(got.shape), expected=list(ref.shape)), prop=prop)
        return
    if exact:
        bad = ~((got == ref) | (np.isnan(got) & np.isnan(ref)))
    else:
        tol = 64 * max(1, n_terms) * EPS * abs_terms + 8 * EPS * np.abs(ref)
        bad = ~((np.abs(got - ref) <= tol) | (np.isnan(got) & np.isnan(ref)))
    if np.any(bad):
        idx = tuple(int(i) for i in np.argwhere(bad)[0])
        rec.violation(M, f"{what}:wrong-entry", dict(desc, first_bad_index=list(idx), observed=float(got[idx]), expected=float(ref[idx]), n_bad=int(bad.sum())), prop=prop)


def is_dyadic(*arrays):
    tot = 0.0
    for v in arrays:
        v = np.asarray(v, dtype=float)
        if not np.all(np.isfinite(v)) or np.any(v * 1024 != np.round(v * 1024)):
            return False
        tot += float(np.abs(v).sum())
    return tot < 2.0**40


def judge_binary(rec, fd, kind, x, y, result, exc, prop="C01"):
    xs, ys = Snap(x), Snap(y)
    lx, ly = list(xs.letters), list(ys.letters)
    vx, vy = np.asarray(xs.values, dtype=float), np.asarray(ys.values, dtype=float)
    desc = {"op": kind, "x_dims": lx, "x_shape": list(vx.shape), "y_dims": ly, "y_shape": list(vy.shape)}
    rec.event(M, sig=f"{kind}|{lx}:{vx.shape}|{ly}:{vy.shape}", cls=f"big|{kind}|{max(vx.size, vy.size) // 10000 * 10000}+", sample=desc)
    if exc is not None:
        rec.violation(M, f"{kind}:raised", dict(desc, exc=repr(exc)[:300]), prop=prop)
        return
    rs = Snap(result)
    if kind in ("add", "sub", "min", "max"):
        common = [l for l in lx if l in ly]
        mx, my = marginal(vx, lx, common), marginal(vy, ly, common)
        ref = {"add": mx + my, "sub": mx - my, "min": np.minimum(mx, my), "max": np.maximum(mx, my)}[kind]
        absx, absy = marginal(np.abs(vx), lx, common), marginal(np.abs(vy), ly, common)
        n = int(vx.size // max(1, mx.size) + vy.size // max(1, my.size))
        exp_letters = common
        abs_terms = absx + absy
    elif kind in ("mul", "div"):
        union = lx + [l for l in ly if l not in lx]
        ex, ey = expand(vx, lx, union), expand(vy, ly, union)
        ref = ex * ey if kind == "mul" else ex / ey
        exp_letters = union
        abs_terms = np.abs(ref)
        n = 1
    else:
        return
    if list(rs.letters) != exp_letters:
        rec.violation(M, f"{kind}:result-dimension-order", dict(desc, got=list(rs.letters), expected=exp_letters), prop=prop)
        return
    check(rec, kind, np.asarray(rs.values, dtype=float), np.asarray(ref, dtype=float), np.asarray(abs_terms, dtype=float), n, desc, is_dyadic(vx, vy) and kind != "div", prop)


def judge_reduce(rec, fd, kind, x, arg, result, exc, prop="C07", target_dims=None):
    xs = Snap(x)
    lx = list(xs.letters)
    vx = np.asarray(xs.values, dtype=float)
    desc = {"op": kind, "x_dims": lx, "x_shape": list(vx.shape), "arg": [str(a) for a in arg] if isinstance(arg, (list, tuple)) else str(arg)}
    rec.event(M, sig=f"{kind}|{lx}:{vx.shape}|{desc['arg']}", cls=f"big|{kind}", sample=desc)
    if exc is not None:
        rec.violation(M, f"{kind}:raised", dict(desc, exc=repr(exc)[:300]), prop=prop)
        return
    exact = is_dyadic(vx)
    if kind == "sum_to":
        keep = list(arg)
        ref, absr, n, exp = marginal(vx, lx, keep), marginal(np.abs(vx), lx, keep), vx.size // max(1, int(np.prod([vx.shape[lx.index(l)] for l in keep]))), keep
    elif kind == "sum_over":
        keep = [l for l in lx if l not in arg]
        ref, absr, n, exp = marginal(vx, lx, keep), marginal(np.abs(vx), lx, keep), vx.size // max(1, int(np.prod([vx.shape[lx.index(l)] for l in keep]))), keep
    elif kind == "cumsum":
        ax = lx.index(arg)
        ref = np.add.accumulate(vx, axis=ax)
        absr, n, exp = np.add.accumulate(np.abs(vx), axis=ax), vx.shape[ax], lx
    elif kind == "cast_to":
        tl = [d[0] for d in target_dims]
        ex = expand(vx, lx, tl)
        ref = np.broadcast_to(ex, [len(d[2]) for d in target_dims]).copy()
        absr, n, exp, exact = np.abs(ref), 1, tl, True
    elif kind == "shares":
        keep = [l for l in lx if l not in arg]
        tot = expand(marginal(vx, lx, keep), keep, lx)
        ref = vx / tot
        absr = np.abs(ref) * (1 + expand(marginal(np.abs(vx), lx, keep), keep, lx) / np.abs(tot))
        n, exp, exact = vx.size // max(1, tot.size), lx, False
    else:
        return
    rs = Snap(result)
    if list(rs.letters) != list(exp):
        rec.violation(M, f"{kind}:result-dimension-order", dict(desc, got=list(rs.letters), expected=list(exp)), prop=prop)
        return
    check(rec, kind, np.asarray(rs.values, dtype=float), np.asarray(ref, dtype=float), np.asarray(absr, dtype=float), n, desc, exact, prop)


# ---------------------------------------------------------------------------------------------------------------------------------
# drivers + judges for large arrays used by C04 (storage order) and C05 (assignment): direct calls, vectorised comparison by label


def _perm_array(fd, x, order, rng):
    """the same labelled array stored in another dimension order (values transposed; sometimes a non-contiguous view)"""
    letters = list(x.dims.letters)
    axes = [letters.index(l) for l in order]
    v = np.transpose(x.values, axes)
    if rng.random() < 0.5:
        v = np.ascontiguousarray(v)
    return fd.FlodymArray(dims=x.dims[tuple(order)], values=v.copy() if rng.random() < 0.3 else v)


def _aligned(r, letters):
    """values of array r with axes in the order `letters`"""
    rl = list(r.dims.letters)
    return np.transpose(np.asarray(r.values, dtype=float), [rl.index(l) for l in letters])


def perm_cases(rec, hub, rng, n_cases, prop="C04"):
    """each operation on a large array and on the SAME labelled array stored in another dimension order: same entries under the
    same labels; the result's own order follows the documented rule (left operand / requested order / target)"""
    from .. import gen

    fd = hub.fd
    for k in range(n_cases):
        U = gen.big_universe(fd, rng)
        la = [str(q) for q in rng.permutation(list("abcd"))[: int(rng.integers(3, 5))]]
        reg = "dyadic" if rng.random() < 0.6 else "real"
        vx = gen.big_values(rng, gen.shape_of(U, la), reg)
        x = fd.FlodymArray(dims=gen.dimset(fd, U, tuple(la)), values=vx)
        order = [str(q) for q in rng.permutation(la)]
        while order == la:
            order = [str(q) for q in rng.permutation(la)]
        xp = _perm_array(fd, x, order, rng)
        keep = [str(q) for q in rng.permutation(la)[: int(rng.integers(2, len(la)))]]  # >= 2 kept dimensions, at least one summed away
        lb = [str(q) for q in rng.permutation(la)[: int(rng.integers(1, len(la)))]]
        y = fd.FlodymArray(dims=gen.dimset(fd, U, tuple(lb)), values=gen.big_values(rng, gen.shape_of(U, lb), reg))
        exact = is_dyadic(vx, y.values)
        scale = float(np.abs(vx).sum()) + 1.0
        jobs = [
            ("sum_to", lambda a: a.sum_to(tuple(keep)), keep),
            ("sum_over", lambda a: a.sum_over(tuple(l for l in la if l not in keep)), None),
            ("sub smaller", lambda a: a - y, None),
            ("smaller add", lambda a: y + a, lb),
            ("maximum", lambda a: a.maximum(y), None),
            ("mul", lambda a: a * y, None),
            ("smaller mul", lambda a: y * a, None),
            ("cumsum", lambda a: a.cumsum(la[0]), None),
            ("cast smaller to", lambda a: y.cast_to(a.dims), None),
            ("assign into target", lambda a: _assign(fd, U, keep, a), keep),
        ]
        for what, f, fixed_order in jobs:
            desc = {"op": what, "dims": la, "permuted_storage": order, "shape": list(vx.shape), "kept_or_other": keep if "sum" in what or "assign" in what else lb}
            rec.event(M, sig=f"perm|{what}|{la}|{order}", cls=f"big|storage-order|{what}", sample=desc)
            try:
                r1, r2 = f(x), f(xp)
            except Exception as e:
                rec.violation(M, f"{what}:raised", dict(desc, exc=repr(e)[:300]), prop=prop)
                continue
            if set(r1.dims.letters) != set(r2.dims.letters):
                rec.violation(M, f"{what}:result-dimensions-differ-between-storage-orders", dict(desc, a=list(r1.dims.letters), b=list(r2.dims.letters)), prop=prop)
                continue
            if fixed_order is not None and (list(r1.dims.letters) != list(fixed_order) or list(r2.dims.letters) != list(fixed_order)):
                rec.violation(M, f"{what}:result-order-does-not-follow-the-documented-rule", dict(desc, a=list(r1.dims.letters), b=list(r2.dims.letters), expected=list(fixed_order)), prop=prop)
                continue
            if tuple(r1.values.shape) != tuple(r1.dims.shape) or tuple(r2.values.shape) != tuple(r2.dims.shape):
                rec.violation(M, f"{what}:values-shape-differs-from-dims", dict(desc, a=list(r1.values.shape), b=list(r2.values.shape)), prop=prop)
                continue
            a_, b_ = np.asarray(r1.values, dtype=float), _aligned(r2, list(r1.dims.letters))
            if exact and what not in ("mul", "smaller mul"):
                bad = ~((a_ == b_) | (np.isnan(a_) & np.isnan(b_)))
            else:
                bad = ~((np.abs(a_ - b_) <= 1e-9 * np.maximum(np.abs(a_), 1e-6 * scale / max(1, a_.size)) + 1e-12 * scale) | (np.isnan(a_) & np.isnan(b_)))
            if np.any(bad):
                idx = tuple(int(i) for i in np.argwhere(bad)[0])
                rec.violation(M, f"{what}:entries-differ-between-storage-orders", dict(desc, first_bad_index=list(idx), a=float(a_[idx]), b=float(b_[idx]), n_bad=int(bad.sum())), prop=prop)


def _assign(fd, U, tl, src):
    from .. import gen

    t = fd.FlodymArray(dims=gen.dimset(fd, U, tuple(tl)))
    t[...] = src
    return t


def assign_cases(rec, hub, rng, n_cases, prop="C05"):
    """target[...] = source and target[key] = source with sources of 10^5 - 10^6 entries: the addressed region receives the source
    summed by label over the dimensions the region lacks; everything else stays bit-identical; dims and shape stay"""
    from .. import gen

    fd = hub.fd
    for k in range(n_cases):
        U = gen.big_universe(fd, rng)
        la = [str(q) for q in rng.permutation(list("abcd"))]  # source: all four dimensions in some order
        if rng.random() < 0.4:
            la = la[:3]
        n_t = int(rng.integers(2, len(la) + 1)) if rng.random() < 0.8 else len(la)
        tl = [str(q) for q in rng.permutation(la)[:n_t]]
        reg = "dyadic" if rng.random() < 0.6 else "real"
        vs = gen.relayout(gen.big_values(rng, gen.shape_of(U, la), reg), rng)
        src = fd.FlodymArray(dims=gen.dimset(fd, U, tuple(la)), values=vs)
        before = gen.big_values(rng, gen.shape_of(U, tl), "dyadic")
        # (a) whole-array assignment
        t = fd.FlodymArray(dims=gen.dimset(fd, U, tuple(tl)), values=before.copy())
        desc = {"target_dims": tl, "source_dims": la, "source_shape": list(vs.shape)}
        rec.event(M, sig=f"assign|{tl}|{la}", cls=f"big|assign-whole|{len(la) - len(tl)} summed", sample=desc)
        try:
            t[...] = src
            ref, absr = marginal(np.asarray(vs, dtype=float), la, tl), marginal(np.abs(np.asarray(vs, dtype=float)), la, tl)
            if list(t.dims.letters) != tl:
                rec.violation(M, "assign:target-dimensions-changed", dict(desc, got=list(t.dims.letters)), prop=prop)
            else:
                check(rec, "assign", np.asarray(t.values, dtype=float), ref, absr, vs.size // max(1, ref.size), desc, is_dyadic(vs), prop)
        except Exception as e:
            rec.violation(M, "assign:raised", dict(desc, exc=repr(e)[:300]), prop=prop)
        # (b) one item of the target's first dimension addressed; the source lacks nothing the region has
        l0 = tl[0]
        if len(tl) >= 2:
            pos = int(rng.integers(0, len(U[l0].items)))
            item = U[l0].items[pos]
            t2 = fd.FlodymArray(dims=gen.dimset(fd, U, tuple(tl)), values=before.copy())
            key = {l0: item} if rng.random() < 0.5 else {U[l0].name: item}
            desc2 = dict(desc, key={str(k_): str(v_) for k_, v_ in key.items()})
            rec.event(M, sig=f"assign-item|{tl}|{la}", cls="big|assign-region", sample=desc2)
            try:
                t2[key] = src
                full = marginal(np.asarray(vs, dtype=float), la, tl[1:])  # summed over l0 as well: the region does not have it
                fabs = marginal(np.abs(np.asarray(vs, dtype=float)), la, tl[1:])
                exp = before.copy()
                exp[pos] = full
                tolr = np.zeros_like(exp)
                tolr[pos] = fabs
                check(rec, "assign-region", np.asarray(t2.values, dtype=float), exp, tolr, vs.size // max(1, full.size), desc2, is_dyadic(vs), prop)
            except Exception as e:
                rec.violation(M, "assign-region:raised", dict(desc2, exc=repr(e)[:300]), prop=prop)
        # (c) a LONG dimension (a thousand or more items, not stored in ascending order) addressed by a list of a hundred or more of
        # its items in the user's own order; the source is a plain array that VARIES along that axis: row i of the source goes to the
        # i-th listed label, everything else stays
        n_long = int(rng.integers(1000, 2500))
        Ld = fd.Dimension(letter="b", name=gen.NAMES["b"], items=[int(q) for q in 5000 + rng.permutation(n_long)], dtype=int)
        first = bool(rng.integers(0, 2))
        dl = [Ld, U["d"]] if first else [U["d"], Ld]
        before3 = gen.big_values(rng, tuple(len(d_.items) for d_ in dl), "dyadic")
        t3 = fd.FlodymArray(dims=fd.DimensionSet(dim_list=dl), values=before3.copy())
        pos3 = rng.permutation(n_long)[: int(rng.integers(100, 300))]
        if rng.random() < 0.2:
            pos3 = np.sort(pos3)
        labels3 = [Ld.items[int(p_)] for p_ in pos3]
        key3 = {("b" if rng.random() < 0.5 else Ld.name): (labels3 if rng.random() < 0.7 else np.array(labels3))}
        rhs3 = gen.big_values(rng, (len(pos3), len(U["d"].items)) if first else (len(U["d"].items), len(pos3)), "dyadic")
        desc3 = {"target_shape": list(before3.shape), "listed_items": len(pos3), "long_dimension_first": first}
        rec.event(M, sig=f"assign-long-list|{before3.shape}|{len(pos3)}", cls="big|assign-long-list-key", sample=desc3)
        try:
            t3[key3] = rhs3
            exp3 = before3.copy()
            if first:
                exp3[pos3, :] = rhs3
            else:
                exp3[:, pos3] = rhs3
            if not np.array_equal(np.asarray(t3.values, dtype=float), exp3):
                rec.violation(M, "assign-long-list:wrong-entries", dict(desc3, n_diff=int((np.asarray(t3.values, dtype=float) != exp3).sum())), prop=prop)
        except Exception as e:
            rec.violation(M, "assign-long-list:raised", dict(desc3, exc=repr(e)[:300]), prop=prop)
