"""C05 / C06 oracles: indexing by item labels reads and writes exactly the addressed entries;
assignment keeps dims, sums the source by label, copies ndarrays, and changes nothing when it fails."""

from __future__ import annotations

import numpy as np

from ..model import EPS, LArr, Snap, as_float, compare_larr, isnan, to_num
from .common import MAX_CELLS, additive_exact, exc_text, first_diff, is_real_number, lens, regime, sum_tolerance, unique_items

MR = "index-read"
MW = "index-write"
MA = "assign-semantics"


def _is_iterable_sel(v, fd):
    from collections.abc import Iterable

    return isinstance(v, Iterable) and not isinstance(v, (str, fd.Dimension))


ITER_KEYS: dict = {}  # id(iterator) -> list of the items it yields (registered by the driver before the call)


def parse_key(fd, xs: Snap, key):
    """Independent model of the documented key forms.
    Returns (sel, status, kinds): sel[letter] = ('single', item) | ('subset', (letter, name, items)) | ('many', items);
    status = 'ok' | 'raise:<why>' | 'skip:<why>'."""
    letters, names, items = xs.letters, xs.names, xs.items

    def dim_of_item(it):
        found = []
        for l, its in zip(letters, items):
            try:
                if it in its:
                    found.append(l)
            except Exception:
                pass
        return found

    sel: dict = {}
    if key is Ellipsis:
        return sel, "ok", "ellipsis"
    if isinstance(key, slice):
        return sel, "raise:slice", "slice"
    if isinstance(key, dict):
        for k, v in key.items():
            if not isinstance(k, str):
                return sel, "skip:non-string dimension key", "dict"
            if k in letters:
                l = k
            elif k in names:
                l = letters[names.index(k)]
            else:
                return sel, "skip:unknown dimension in key (not judged)", "dict"
            if l in sel:
                return sel, "skip:dimension named twice in key", "dict"
            its = items[letters.index(l)]
            if isinstance(v, slice):
                return sel, "raise:slice", "dict"
            if isinstance(v, fd.Dimension):
                sub = tuple(v.items)
                if len(set(map(repr, sub))) != len(sub) or len(sub) == 0:
                    return sel, "skip:subset with repeated or no items", "dict"
                if not all(_in(i, its) for i in sub):
                    return sel, "raise:dimension-not-a-subset", "dict"
                if v.letter in letters:
                    return sel, "skip:subset dimension re-uses an existing letter", "dict"
                if any(s[0] == "subset" and s[1][0] == v.letter for s in sel.values()):
                    return sel, "skip:two subset dimensions with one letter", "dict"
                sel[l] = ("subset", (v.letter, v.name, sub))
            elif _is_iterable_sel(v, fd):
                lst = list(ITER_KEYS[id(v)]) if (hasattr(v, "__next__") and id(v) in ITER_KEYS) else list(v)
                if not all(_in(i, its) for i in lst):
                    return sel, "raise:unknown-item", "dict"
                if len(lst) == 0:
                    return sel, "skip:empty list", "dict"
                if len(set(map(repr, lst))) != len(lst):
                    return sel, "skip:list with repeated items", "dict"
                sel[l] = ("many", tuple(lst))
            else:
                if not _in(v, its):
                    return sel, "raise:unknown-item", "dict"
                sel[l] = ("single", v)
        return sel, "ok", "dict"
    # bare item or tuple of items
    parts = key if isinstance(key, tuple) else (key,)
    kind = "tuple" if isinstance(key, tuple) else "bare"
    grouped: dict = {}
    for it in parts:
        if isinstance(it, slice):
            return sel, "raise:slice", kind
        if isinstance(it, (fd.Dimension, list, dict, set, np.ndarray)) or it is Ellipsis:
            return sel, "skip:unsupported element in tuple key", kind
        ds = dim_of_item(it)
        if len(ds) == 0:
            return sel, "raise:unknown-item", kind
        if len(ds) > 1:
            return sel, "raise:ambiguous-item", kind
        grouped.setdefault(ds[0], []).append(it)
    for l, lst in grouped.items():
        if len(lst) == 1:
            sel[l] = ("single", lst[0])
        else:
            if len(set(map(repr, lst))) != len(lst):
                return sel, "skip:repeated item in tuple", kind
            sel[l] = ("many", tuple(lst))
    return sel, "ok", kind


def _in(it, its):
    try:
        return it in its
    except Exception:
        return False


def canon(it, its):
    """the dimension's own item equal to it (labels compare with ==)"""
    return its[its.index(it)]


def sel_signature(xs: Snap, sel) -> str:
    out = []
    for l in xs.letters:
        s = sel.get(l)
        out.append("-" if s is None else {"single": "1", "subset": "S", "many": "L"}[s[0]])
    return "".join(out)


def subset_orders(xs, sel) -> str:
    out = []
    for l in xs.letters:
        s = sel.get(l)
        if s is not None and s[0] in ("subset", "many"):
            its = xs.items[xs.letters.index(l)]
            seq = s[1][2] if s[0] == "subset" else s[1]
            pos = [its.index(i) for i in seq]
            out.append("id" if pos == sorted(pos) else ("rev" if pos == sorted(pos, reverse=True) else "mix"))
    return ",".join(out)


def expected_region_dims(xs: Snap, sel):
    """dims of the addressed region: singles dropped, subsets replaced, lists keep the letter with the listed items"""
    dims = []
    for l, n, its in xs.dims_tuple():
        s = sel.get(l)
        if s is None:
            dims.append((l, n, its))
        elif s[0] == "subset":
            dims.append(s[1])
        elif s[0] == "many":
            dims.append((l, n, tuple(canon(i, its) for i in s[1])))
    return dims


def full_label(xs: Snap, sel, region_label):
    """map a label of the region (in region dims order) to the label of the parent entry"""
    out = []
    j = 0
    for l, n, its in xs.dims_tuple():
        s = sel.get(l)
        if s is not None and s[0] == "single":
            out.append(canon(s[1], its))
        else:
            out.append(canon(region_label[j], its))
            j += 1
    return tuple(out)


def register(hub, props=("C05", "C06")):
    fd = hub.fd
    rec = hub.rec
    P5, P6 = "C05", "C06"
    if "C06" in props:
        rec.require(MR, 30)
        rec.require(MW, 30)
    if "C05" in props:
        rec.require(MA, 30)

    def v6(monitor, call, mech, **w):
        if "C06" in props:
            rec.violation(monitor, f"{mech}", w, prop=P6)

    def v5(call, mech, **w):
        if "C05" in props:
            rec.violation(MA, f"{mech}", w, prop=P5)

    def keyrepr(key):
        if isinstance(key, dict):
            return {str(k): (f"Dimension({v.letter}:{list(v.items)})" if isinstance(v, fd.Dimension) else repr(v)[:60]) for k, v in key.items()}
        return repr(key)[:120]

    def f1_like(xs, sel):
        """structural description used in mechanism signatures: one list-like selector meets a single-item selector
        and a kept dimension lies between/around them"""
        kinds = [sel.get(l, (None,))[0] for l in xs.letters]
        n_list = sum(k in ("subset", "many") for k in kinds)
        n_single = sum(k == "single" for k in kinds)
        return n_list == 1 and n_single >= 1

    # ------------------------------------------------------------------ reads
    def o_getitem(hub, call):
        xs = call.pre[0]
        if not isinstance(xs, Snap) or not xs.ok or not unique_items(xs) or xs.values.dtype.kind not in "fiub":
            return
        if xs.values.size > MAX_CELLS:
            rec.skip(MR, "array too large")
            return
        key = call.arg(1)
        sel, status, kind = parse_key(fd, xs, key)
        ssig = sel_signature(xs, sel)
        sig = f"get|{''.join(xs.letters)}:{lens(xs)}|{kind}|{ssig}|{subset_orders(xs, sel)}|{status}"
        if status.startswith("skip"):
            rec.skip(MR, status[5:])
            return
        many = any(s[0] == "many" for s in sel.values())
        if status.startswith("raise") or many:
            why = status[6:] if status.startswith("raise") else "several-items-of-one-dimension-on-read"
            rec.event(MR, sig=sig, cls=f"read|must-raise|{why}")
            if call.exc is None:
                v6(MR, call, f"read:accepted:{why}", key=keyrepr(key), x=xs.describe(), result=Snap(call.result).describe() if isinstance(call.result, fd.FlodymArray) else repr(call.result)[:80])
            return
        X = LArr.from_snap(xs)
        ref = X.select(sel)
        rec.event(MR, sig=sig, cls=f"read|{kind}|sel={''.join(sorted(set(ssig)))}|nd={len(xs.letters)}",
                  sample={"op": "getitem", "dims": list(xs.letters), "shape": list(xs.shape), "key": keyrepr(key), "selector_per_dim": ssig})
        tag = ":list-with-single" if f1_like(xs, sel) else ""
        if call.exc is not None:
            v6(MR, call, f"read:raised-on-valid-key{tag}", key=keyrepr(key), x=xs.describe(), exc=exc_text(call.exc))
            return
        res = call.result
        if not isinstance(res, fd.FlodymArray):
            v6(MR, call, "read:result-not-an-array", got=repr(res)[:80])
            return
        rs = Snap(res)
        if not rs.ok or rs.values.shape != rs.shape:
            v6(MR, call, f"read:result-shape-differs-from-dims{tag}", key=keyrepr(key), x=xs.describe(), result_dims=list(rs.letters), result_shape=list(np.shape(rs.values)))
            return
        if [(d[0], d[1], d[2]) for d in rs.dims_tuple()] != [(d[0], d[1], tuple(d[2])) for d in ref.dims]:
            v6(MR, call, f"read:result-dims{tag}", key=keyrepr(key), got=[(d[0], list(d[2])) for d in rs.dims_tuple()], expected=[(d[0], list(d[2])) for d in ref.dims])
            return
        d = compare_larr(LArr.from_snap(rs), ref, None)
        if d is not None:
            v6(MR, call, f"read:wrong-entry{tag}", key=keyrepr(key), x=xs.describe(), diff=first_diff(d), selector_per_dim=ssig)

    hub.on("FlodymArray.__getitem__", o_getitem)

    # ------------------------------------------------------------------ writes
    def o_setitem(hub, call):
        xs = call.pre[0]
        if not isinstance(xs, Snap) or not xs.ok or not unique_items(xs) or xs.values.dtype.kind not in "fiub":
            return
        if xs.values.size > MAX_CELLS:
            rec.skip(MW, "array too large")
            return
        target = call.args[0]
        key = call.arg(1)
        rhs = call.arg(2)
        rhs_pre = call.pre[2] if len(call.pre) > 2 else None
        ts = Snap(target)
        sel, status, kind = parse_key(fd, xs, key)
        ssig = sel_signature(xs, sel)
        rkind = ("array" if isinstance(rhs, fd.FlodymArray) else "ndarray" if isinstance(rhs, np.ndarray) else "number" if is_real_number(rhs) else type(rhs).__name__)
        sig = f"set|{''.join(xs.letters)}:{lens(xs)}|{kind}|{ssig}|{subset_orders(xs, sel)}|{status}|{rkind}"

        # (always) a failed call changes nothing; dims never change
        if call.exc is not None and not ts.same(xs):
            v5(call, "target-changed-by-failed-assignment", key=keyrepr(key), rhs=rkind, before=xs.describe(), after=ts.describe(), exc=exc_text(call.exc))
            return
        if not ts.same_dims(xs):
            v5(call, "target-dims-changed", key=keyrepr(key), before=list(xs.letters), after=list(ts.letters))
            return
        if not ts.ok or ts.values.shape != ts.shape:
            v5(call, "target-shape-changed", key=keyrepr(key), rhs=rkind, shape=list(np.shape(ts.values)), dims_shape=list(ts.shape))
            return
        if status.startswith("skip"):
            rec.skip(MW, status[5:])
            return
        if status.startswith("raise"):
            rec.event(MW, sig=sig, cls=f"write|must-raise|{status[6:]}")
            if call.exc is None:
                v6(MW, call, f"write:accepted:{status[6:]}", key=keyrepr(key), x=xs.describe())
            return
        X = LArr.from_snap(xs)
        rdims = expected_region_dims(xs, sel)
        rletters = [d[0] for d in rdims]
        rshape = tuple(len(d[2]) for d in rdims)
        has_many = any(s[0] == "many" for s in sel.values())
        tag = ":list-with-single" if f1_like(xs, sel) else ""

        # expected region content ------------------------------------------------
        expected = None  # dict region label -> number
        tol = None
        must_raise = None
        if isinstance(rhs, fd.FlodymArray):
            if not isinstance(rhs_pre, Snap) or not rhs_pre.ok or not unique_items(rhs_pre) or rhs_pre.values.size > MAX_CELLS:
                rec.skip(MA, "source not judgeable")
                return
            S = LArr.from_snap(rhs_pre)
            if any(l not in S.letters for l in rletters):
                must_raise = "source-lacks-a-region-dimension"
            else:
                # the source's dimension must be the region's dimension (same items) to be matched by label
                ok = True
                for dl, dn, dits in rdims:
                    sd = S.dim(dl)
                    if tuple(sd[2]) != tuple(dits):
                        ok = False
                if has_many and any(sel.get(l, ("",))[0] == "many" for l in S.letters):
                    rec.skip(MA, "list selector with an array source over that dimension (label vs position not specified)")
                    return
                if not ok:
                    rec.skip(MA, "source dimension differs from the region's dimension (outside one common dimension set)")
                    return
                M_ = S.marginal(rletters)
                expected = dict(M_.cell)
                if not additive_exact(S):
                    tol = sum_tolerance(S, rletters)
        elif is_real_number(rhs):
            v = to_num(rhs)
            import itertools

            expected = {lab: v for lab in itertools.product(*[d[2] for d in rdims])}
        elif isinstance(rhs, np.ndarray):
            if key is Ellipsis:
                if rhs.shape != xs.shape:
                    must_raise = "whole-array-ndarray-of-other-shape"
                elif rhs.dtype.kind not in "fiub":
                    rec.skip(MA, "non-numeric ndarray")
                    return
            elif rhs.shape != rshape:
                rec.skip(MA, "keyed assignment of an ndarray that does not have exactly the region's shape (not judged)")
                return
            if must_raise is None:
                src = rhs_pre if isinstance(rhs_pre, np.ndarray) else rhs
                expected = {}
                for idx in np.ndindex(*rshape):
                    expected[tuple(rdims[k][2][i] for k, i in enumerate(idx))] = to_num(src[idx])
        else:
            rec.skip(MA, f"right-hand side of type {rkind} (not judged)")
            return

        cls = f"write|{kind}|sel={''.join(sorted(set(ssig)))}|rhs={rkind}|nd={len(xs.letters)}"
        rec.event(MW, sig=sig, cls=cls, sample={"op": "setitem", "dims": list(xs.letters), "shape": list(xs.shape), "key": keyrepr(key), "rhs": rkind, "selector_per_dim": ssig})
        rec.event(MA, sig=sig + "|" + ("" if not isinstance(rhs_pre, Snap) else "".join(rhs_pre.letters)), cls=f"assign|rhs={rkind}|{'must-raise' if must_raise else 'ok'}")

        if must_raise:
            if call.exc is None:
                v5(call, f"accepted:{must_raise}", key=keyrepr(key), target=xs.describe(), rhs=(rhs_pre.describe() if isinstance(rhs_pre, Snap) else list(np.shape(rhs))), after=ts.describe())
            return
        if call.exc is not None:
            v6(MW, call, f"write:raised-on-valid-assignment{tag}", key=keyrepr(key), x=xs.describe(), rhs=rkind, exc=exc_text(call.exc),
               rhs_dims=list(rhs_pre.letters) if isinstance(rhs_pre, Snap) else None)
            return
        # compare the whole target with the model: inside region = expected, outside bit-identical
        T = LArr.from_snap(ts)
        inside = {}
        import itertools

        for rl in itertools.product(*[d[2] for d in rdims]):
            inside[full_label(xs, sel, rl)] = rl
        for lab, old in X.cell.items():
            new = T.cell[lab]
            if lab in inside:
                e = expected[inside[lab]]
                t = 0.0 if tol is None else tol[inside[lab]]
                if ts.values.dtype.kind == "f" and ts.values.dtype.itemsize < 8 and not isnan(e):
                    t = max(t, float(np.finfo(ts.values.dtype).eps) * abs(as_float(e)))  # rounding to the target's own precision
                bad = (isnan(e) != isnan(new)) or (not isnan(e) and (abs(new - e) > t if t else new != e))
                if bad:
                    mech = f"write:wrong-entry-inside-region{tag}" if not isinstance(rhs, fd.FlodymArray) else f"assign:source-not-summed-by-label{tag}"
                    w = dict(key=keyrepr(key), target=xs.describe(), label=list(lab), observed=as_float(new), expected=as_float(e), rhs=rkind,
                             rhs_desc=rhs_pre.describe() if isinstance(rhs_pre, Snap) else None, selector_per_dim=ssig)
                    if isinstance(rhs, fd.FlodymArray):
                        v5(call, mech, **w)
                        if "C05" not in props:
                            v6(MW, call, mech, **w)
                    else:
                        v6(MW, call, mech, **w)
                        if "C06" not in props:
                            v5(call, mech, **w)
                    return
            else:
                same = (isnan(old) and isnan(new)) or old == new
                if not same:
                    w = dict(key=keyrepr(key), target=xs.describe(), label=list(lab), before=as_float(old), after=as_float(new), rhs=rkind, selector_per_dim=ssig)
                    v6(MW, call, f"write:entry-outside-region-changed{tag}", **w)
                    v5(call, f"entry-outside-region-changed{tag}", **w)
                    return
        # the target must not end up sharing memory with an array source (a later assignment into either would change the other)
        if isinstance(rhs, fd.FlodymArray) and rhs is not target and isinstance(rhs.values, np.ndarray) and rhs.values.size and np.shares_memory(target.values, rhs.values):
            v5(call, "target-shares-memory-with-the-assigned-array", key=keyrepr(key), target_dims=list(xs.letters), source_dims=list(rhs_pre.letters) if isinstance(rhs_pre, Snap) else None)
        # ndarray sources are copied
        if isinstance(rhs, np.ndarray) and rhs.size and not rhs.flags.writeable:
            # a read-only array may still be a view of memory its owner can write: it is copied like any other
            if np.shares_memory(target.values, rhs) or not target.values.flags.writeable:
                v5(call, "assigned-ndarray-not-copied:read-only-source", key=keyrepr(key))
        if isinstance(rhs, np.ndarray) and rhs.size and rhs.flags.writeable:
            if np.shares_memory(target.values, rhs):
                v5(call, "assigned-ndarray-not-copied:shares-memory", key=keyrepr(key))
            else:
                old = rhs.flat[0].copy()
                before = target.values.copy()
                try:
                    rhs.flat[0] = old + 12345 if rhs.dtype.kind in "fiu" else old
                    if not np.array_equal(before, target.values, equal_nan=True):
                        v5(call, "assigned-ndarray-not-copied:write-through", key=keyrepr(key))
                finally:
                    rhs.flat[0] = old

    hub.on("FlodymArray.__setitem__", o_setitem)

    # ------------------------------------------------------------------ set_values (C05 whole-array form)
    def o_set_values(hub, call):
        xs = call.pre[0]
        if not isinstance(xs, Snap) or not xs.ok:
            return
        target = call.args[0]
        vals = call.arg(1, "values")
        ts = Snap(target)
        kind = "array" if isinstance(vals, fd.FlodymArray) else "ndarray" if isinstance(vals, np.ndarray) else "number" if is_real_number(vals) else type(vals).__name__
        sig = f"set_values|{''.join(xs.letters)}:{lens(xs)}|{kind}|{list(np.shape(vals)) if isinstance(vals, np.ndarray) else ''}"
        rec.event(MA, sig=sig, cls=f"set_values|{kind}")
        if call.exc is not None:
            if not ts.same(xs):
                v5(call, "target-changed-by-failed-set_values", rhs=kind, before=xs.describe(), after_shape=list(np.shape(target.values)) if isinstance(target.values, np.ndarray) else repr(type(target.values)), exc=exc_text(call.exc))
            return
        if isinstance(vals, np.ndarray):
            if vals.shape != xs.shape:
                v5(call, "set_values-accepted-ndarray-of-other-shape", got=list(vals.shape), dims_shape=list(xs.shape))
            elif not np.array_equal(np.asarray(target.values), vals, equal_nan=True):
                v5(call, "set_values-stored-other-values")
        elif isinstance(vals, fd.FlodymArray):
            v5(call, "set_values-accepted-a-FlodymArray", after=repr(type(target.values)))
        elif is_real_number(vals):
            if not (isinstance(target.values, np.ndarray) and target.values.shape == xs.shape and (np.all(target.values == vals) or (vals != vals))):
                v5(call, "set_values-number-did-not-fill")

    hub.on("FlodymArray.set_values", o_set_values)

    # ------------------------------------------------------------------ items_where / split
    def o_items_where(hub, call):
        xs = call.pre[0]
        if not isinstance(xs, Snap) or not xs.ok or xs.values.size > MAX_CELLS:
            return
        cond = call.arg(1, "condition")
        try:
            mask = np.asarray(cond(xs.values.copy()), dtype=bool)
        except Exception:
            return
        if mask.shape != xs.shape or not xs.letters:
            return  # 0-d arrays have no labels to report
        exp = sorted(tuple(str(xs.items[k][i]) for k, i in enumerate(idx)) for idx in np.argwhere(mask))
        rec.event(MR, sig=f"items_where|{''.join(xs.letters)}:{lens(xs)}|n={len(exp)}", cls=f"items_where|nd={len(xs.letters)}|hits={'0' if not exp else ('all' if len(exp) == mask.size else 'some')}")
        if call.exc is not None:
            v6(MR, call, "items_where:raised", exc=exc_text(call.exc), x=xs.describe())
            return
        res = np.asarray(call.result)
        if len(exp) == 0:
            if res.size != 0:
                v6(MR, call, "items_where:reported-entries-although-none-match", got=res.tolist()[:5])
            return
        if res.ndim != 2 or res.shape[1] != len(xs.letters):
            v6(MR, call, "items_where:shape", got=list(res.shape), expected=[len(exp), len(xs.letters)])
            return
        got = sorted(tuple(str(c) for c in row) for row in res.tolist())
        if got != exp:
            v6(MR, call, "items_where:wrong-labels", got=got[:6], expected=exp[:6], x=xs.describe())

    hub.on("FlodymArray.items_where", o_items_where)

    def o_split(hub, call):
        xs = call.pre[0]
        if not isinstance(xs, Snap) or not xs.ok or xs.values.size > MAX_CELLS or not unique_items(xs) or xs.values.dtype.kind not in "fiub":
            return
        letter = call.arg(1, "dim_letter")
        if not isinstance(letter, str) or not (letter in xs.letters or letter in xs.names):
            rec.event(MR, sig=f"split|unknown|{letter!r}", cls="split|unknown-dim")
            if call.exc is None:
                v6(MR, call, "split:accepted-unknown-dimension", letter=repr(letter))
            return
        l = letter if letter in xs.letters else xs.letters[xs.names.index(letter)]
        its = xs.items[xs.letters.index(l)]
        rec.event(MR, sig=f"split|{''.join(xs.letters)}:{lens(xs)}|{l}", cls=f"split|nd={len(xs.letters)}")
        if call.exc is not None:
            v6(MR, call, "split:raised", exc=exc_text(call.exc), x=xs.describe(), letter=letter)
            return
        res = call.result
        if not isinstance(res, dict) or list(res.keys()) != list(its):
            v6(MR, call, "split:keys-differ-from-items", got=repr(list(res.keys()) if isinstance(res, dict) else res)[:200], expected=list(its))
            return
        X = LArr.from_snap(xs)
        for it in its:
            ref = X.select({l: ("single", it)})
            d = compare_larr(LArr.from_array(res[it]), ref, None)
            if d is not None:
                v6(MR, call, "split:slice-under-wrong-label", item=repr(it), diff=first_diff(d), x=xs.describe())
                return

    hub.on("FlodymArray.split", o_split)
