"""C07 oracles: sums, casts, cumsum and shares act by label and conserve totals."""

from __future__ import annotations

import math

import numpy as np

from ..model import EPS, LArr, Snap, DSnap, as_float, compare_larr, isnan, ndiv, nsub
from .common import judgeable_dtype, MAX_CELLS, additive_exact, exc_text, first_diff, has_inf, lens, regime, sum_tolerance, unique_items

M = "reduce-by-label"


def register(hub, prop="C07"):
    fd = hub.fd
    rec = hub.rec
    rec.require(M, 50)

    def viol(call, mech, **w):
        rec.violation(M, f"{call.op.split('.')[-1]}:{mech}", w, prop=prop)

    def resolve(xs: Snap, spec):
        """dimension given as letter, name or Dimension object -> letter, or None if unknown"""
        if isinstance(spec, fd.Dimension):
            # a Dimension object names the dimension by its letter
            return spec.letter if spec.letter in xs.letters else None
        if isinstance(spec, str):
            if spec in xs.letters:
                return spec
            if spec in xs.names:
                return xs.letters[xs.names.index(spec)]
        return None

    def spell(spec):
        return "obj" if isinstance(spec, fd.Dimension) else ("letter" if isinstance(spec, str) and len(spec) == 1 else "name")

    def prep(call):
        xs = call.pre[0]
        if not isinstance(xs, Snap) or not xs.ok or not unique_items(xs):
            return None
        if xs.values.size > MAX_CELLS or not judgeable_dtype(xs.values):
            rec.skip(M, "too large or non-real dtype")
            return None
        X = LArr.from_snap(xs)
        if has_inf(X):
            rec.skip(M, "infinite entries")
            return None
        return xs, X

    def judge_array(call, xs, ref: LArr, tol, sig, cls, names=None):
        if call.exc is not None:
            viol(call, "raised-on-valid-call", exc=exc_text(call.exc), x=xs.describe(), arg=sig)
            return
        res = call.result
        if not isinstance(res, fd.FlodymArray):
            viol(call, "result-not-an-array", got=repr(res)[:100])
            return
        rs = Snap(res)
        if not rs.ok or rs.values.shape != rs.shape:
            viol(call, "result-shape-differs-from-dims", result=rs.describe())
            return
        if tuple(rs.letters) != tuple(ref.letters):
            viol(call, "result-dimension-order", got=list(rs.letters), expected=list(ref.letters), x=xs.describe(), arg=sig)
            return
        if rs.names != tuple(d[1] for d in ref.dims):
            viol(call, "result-dimension-names", got=list(rs.names), expected=[d[1] for d in ref.dims])
            return
        d = compare_larr(LArr.from_snap(rs), ref, tol)
        if d is not None:
            viol(call, f"wrong-entry:{d[3]}", diff=first_diff(d), x=xs.describe(), arg=sig)

    def judge_values(call, xs, ref: LArr, tol, sig):
        """for the *_values_* functions returning a bare ndarray laid out in ref's order"""
        if call.exc is not None:
            viol(call, "raised-on-valid-call", exc=exc_text(call.exc), x=xs.describe(), arg=sig)
            return
        res = np.asarray(call.result)
        shape = tuple(len(d[2]) for d in ref.dims)
        if res.shape != shape:
            viol(call, "values-shape", got=list(res.shape), expected=list(shape), x=xs.describe(), arg=sig)
            return
        cell = {}
        from ..model import to_num

        for idx in np.ndindex(*shape):
            cell[tuple(ref.dims[k][2][i] for k, i in enumerate(idx))] = to_num(res[idx])
        d = compare_larr(LArr(ref.dims, cell), ref, tol)
        if d is not None:
            viol(call, f"wrong-entry:{d[3]}", diff=first_diff(d), x=xs.describe(), arg=sig)

    def tol_for(X, keep):
        return None if additive_exact(X) else sum_tolerance(X, keep)

    # --- sum_to / sum_values_to ------------------------------------------------
    def o_sum_to(values_only):
        def oracle(hub, call):
            p = prep(call)
            if p is None:
                return
            xs, X = p
            spec = call.arg(1, "result_dims", ())
            try:
                spec = tuple(spec)
            except TypeError:
                return
            letters = [resolve(xs, s) for s in spec]
            opn = call.op.split(".")[-1]
            sp = ",".join(spell(s) for s in spec)
            sig = f"{opn}|{''.join(xs.letters)}:{lens(xs)}|->{letters}|{sp}"
            if None in letters:
                rec.event(M, sig=sig, cls=f"{opn}|unknown-dim")
                if call.exc is None:
                    viol(call, "accepted-unknown-dimension", arg=[repr(s)[:40] for s in spec], x=xs.describe())
                return
            if len(set(letters)) != len(letters):
                rec.skip(M, "repeated dimension in request")
                return
            ref = X.marginal(letters)
            rec.event(M, sig=sig, cls=f"{opn}|{regime(X)}|kept={len(letters)}of{len(xs.letters)}",
                      sample={"op": opn, "x_dims": list(xs.letters), "shape": list(xs.shape), "requested": [repr(s)[:30] for s in spec]})
            if values_only:
                judge_values(call, xs, ref, tol_for(X, letters), sig)
            else:
                judge_array(call, xs, ref, tol_for(X, letters), sig, opn)
                if call.exc is None and isinstance(call.result, fd.FlodymArray):
                    # grand total preserved
                    tot_ref = X.total()
                    got = LArr.from_array(call.result).total()
                    if not (isnan(tot_ref) or isnan(got)):
                        t = 0 if additive_exact(X) else 2 * 64 * X.size() * EPS * as_float(X.absarr().total())
                        if abs(got - tot_ref) > t:
                            viol(call, "grand-total-not-preserved", got=as_float(got), expected=as_float(tot_ref), x=xs.describe())

        return oracle

    hub.on("FlodymArray.sum_to", o_sum_to(False))
    hub.on("FlodymArray.sum_values_to", o_sum_to(True))

    # --- sum_over / sum_values_over ----------------------------------------------
    def o_sum_over(values_only):
        def oracle(hub, call):
            p = prep(call)
            if p is None:
                return
            xs, X = p
            spec = call.arg(1, "sum_over_dims", ())
            try:
                spec = tuple(spec)
            except TypeError:
                return
            letters = [resolve(xs, s) for s in spec]
            opn = call.op.split(".")[-1]
            sp = ",".join(spell(s) for s in spec)
            sig = f"{opn}|{''.join(xs.letters)}:{lens(xs)}|over{letters}|{sp}"
            if None in letters:
                rec.event(M, sig=sig, cls=f"{opn}|unknown-dim")
                if call.exc is None:
                    viol(call, "accepted-unknown-dimension", arg=[repr(s)[:40] for s in spec], x=xs.describe())
                return
            keep = [l for l in xs.letters if l not in letters]
            ref = X.marginal(keep)
            rec.event(M, sig=sig, cls=f"{opn}|{regime(X)}|summed={len(set(letters))}of{len(xs.letters)}")
            if values_only:
                judge_values(call, xs, ref, tol_for(X, keep), sig)
            else:
                judge_array(call, xs, ref, tol_for(X, keep), sig, opn)

        return oracle

    hub.on("FlodymArray.sum_over", o_sum_over(False))
    hub.on("FlodymArray.sum_values_over", o_sum_over(True))

    def o_sum_values(hub, call):
        p = prep(call)
        if p is None:
            return
        xs, X = p
        rec.event(M, sig=f"sum_values|{''.join(xs.letters)}:{lens(xs)}", cls=f"sum_values|{regime(X)}")
        if call.exc is not None:
            viol(call, "raised-on-valid-call", exc=exc_text(call.exc))
            return
        ref = X.total()
        got = call.result
        try:
            g = float(got)
        except Exception:
            viol(call, "total-not-a-number", got=repr(got)[:80])
            return
        if isnan(ref) or g != g:
            if isnan(ref) != (g != g):
                viol(call, "wrong-total:nan", got=g, expected=as_float(ref) if not isnan(ref) else "nan")
            return
        t = 0.0 if additive_exact(X) else 64 * X.size() * EPS * as_float(X.absarr().total())
        if abs(g - as_float(ref)) > t:
            viol(call, "wrong-total", got=g, expected=as_float(ref), x=xs.describe())

    hub.on("FlodymArray.sum_values", o_sum_values)

    # --- cumsum --------------------------------------------------------------------
    def o_cumsum(hub, call):
        p = prep(call)
        if p is None:
            return
        xs, X = p
        letter = call.arg(1, "dim_letter")
        inplace = bool(call.arg(2, "inplace", False))
        sig = f"cumsum|{''.join(xs.letters)}:{lens(xs)}|{letter}|{inplace}"
        if not isinstance(letter, str) or letter not in xs.letters:
            rec.event(M, sig=sig, cls="cumsum|unknown-dim")
            if call.exc is None:
                viol(call, "accepted-unknown-dimension", arg=repr(letter)[:40], x=xs.describe())
            return
        ref = X.cumsum(letter)
        rec.event(M, sig=sig, cls=f"cumsum|{regime(X)}|axis={xs.letters.index(letter)}of{len(xs.letters)}",
                  sample={"op": "cumsum", "x_dims": list(xs.letters), "shape": list(xs.shape), "along": letter})
        tol = None
        if not additive_exact(X):
            n = len(X.dim(letter)[2])
            A = X.absarr().cumsum(letter)
            tol = {lab: 64 * n * EPS * as_float(v) if not isnan(v) else 0.0 for lab, v in A.cell.items()}
        if call.exc is not None:
            viol(call, "raised-on-valid-call", exc=exc_text(call.exc), x=xs.describe())
            return
        target = call.args[0] if inplace else call.result
        if not isinstance(target, fd.FlodymArray):
            viol(call, "result-not-an-array", got=repr(target)[:100])
            return
        ts = Snap(target)
        if not ts.same_dims(xs):
            viol(call, "dims-changed", got=list(ts.letters), x=xs.describe())
            return
        d = compare_larr(LArr.from_snap(ts), ref, tol)
        if d is not None:
            viol(call, f"wrong-entry:{d[3]}", diff=first_diff(d), x=xs.describe(), along=letter)

    hub.on("FlodymArray.cumsum", o_cumsum)

    # --- cast ------------------------------------------------------------------------
    def o_cast(values_only):
        def oracle(hub, call):
            p = prep(call)
            if p is None:
                return
            xs, X = p
            tds = call.prearg(1, "target_dims")
            if not isinstance(tds, DSnap):
                return
            tl = tds.letters
            opn = call.op.split(".")[-1]
            sig = f"{opn}|{''.join(xs.letters)}:{lens(xs)}|->{''.join(tl)}:{'x'.join(str(len(d[2])) for d in tds.dims)}"
            if len(set(tl)) != len(tl):
                return
            # same letter must mean the same dimension
            for d in tds.dims:
                if d[0] in xs.letters and X.dim(d[0]) != d:
                    rec.skip(M, "cast target not from the common dimension set")
                    return
            n_out = 1
            for d in tds.dims:
                n_out *= len(d[2])
            if n_out > MAX_CELLS:
                rec.skip(M, "cast target too large")
                return
            if any(l not in tl for l in xs.letters):
                rec.event(M, sig=sig, cls=f"{opn}|target-lacks-source-dim")
                if call.exc is None:
                    viol(call, "accepted-target-lacking-a-source-dimension", x=xs.describe(), target=list(tl))
                return
            ref = X.broadcast(tds.dims)
            rec.event(M, sig=sig, cls=f"{opn}|{regime(X)}|added={len(tl) - len(xs.letters)}",
                      sample={"op": opn, "x_dims": list(xs.letters), "target": list(tl)})
            if values_only:
                judge_values(call, xs, ref, None, sig)
            else:
                judge_array(call, xs, ref, None, sig, opn)

        return oracle

    hub.on("FlodymArray.cast_to", o_cast(False))
    hub.on("FlodymArray.cast_values_to", o_cast(True))

    # --- shares ------------------------------------------------------------------------
    def o_shares(hub, call):
        p = prep(call)
        if p is None:
            return
        xs, X = p
        spec = call.arg(1, "dim_letters")
        try:
            letters = list(spec)
        except TypeError:
            return
        sig = f"shares|{''.join(xs.letters)}:{lens(xs)}|{letters}"
        if any((not isinstance(l, str)) or l not in xs.letters for l in letters):
            rec.event(M, sig=sig, cls="shares|unknown-dim")
            if call.exc is None:
                viol(call, "accepted-unknown-dimension", arg=repr(spec)[:60], x=xs.describe())
            return
        keep = [l for l in xs.letters if l not in letters]
        tot = X.marginal(keep)
        atot = X.absarr().marginal(keep)
        n = max(1, X.count_terms(keep))
        rec.event(M, sig=sig, cls=f"shares|{regime(X)}|over={len(set(letters))}of{len(xs.letters)}",
                  sample={"op": "get_shares_over", "x_dims": list(xs.letters), "over": letters})
        if call.exc is not None:
            viol(call, "raised-on-valid-call", exc=exc_text(call.exc), x=xs.describe(), over=letters)
            return
        res = call.result
        if not isinstance(res, fd.FlodymArray):
            viol(call, "result-not-an-array", got=repr(res)[:100])
            return
        rs = Snap(res)
        if tuple(rs.letters) != tuple(xs.letters) or rs.items != xs.items:
            viol(call, "result-dims-differ-from-source", got=list(rs.letters), x=xs.describe())
            return
        R = LArr.from_snap(rs)
        kp = [X.letters.index(l) for l in keep]
        sums = {}
        for lab, v in X.cell.items():
            tl = tuple(lab[i] for i in kp)
            t = tot.cell[tl]
            if isnan(t) or isnan(v):
                continue
            if t == 0:
                continue  # total zero: not judged
            ref = ndiv(v, t)
            o = R.cell[lab]
            at = as_float(atot.cell[tl])
            rel = 8 * EPS + 64 * n * EPS * at / abs(as_float(t))
            if isnan(o) or abs(as_float(o) - as_float(ref)) > rel * max(abs(as_float(ref)), abs(as_float(v)) / abs(as_float(t))) + 1e-300:
                viol(call, "wrong-share", label=list(lab), observed=as_float(o), expected=as_float(ref), x=xs.describe(), over=letters)
                return
            sums.setdefault(tl, []).append((o, rel, at / abs(as_float(t))))
        # shares add up to one wherever the total is non-zero
        for tl, lst in sums.items():
            s = math.fsum(as_float(o) for o, _, _ in lst)
            bound = sum(rel * 1.0 for _, rel, _ in lst) * max(1.0, lst[0][2]) + 64 * len(lst) * EPS * lst[0][2]
            if abs(s - 1.0) > bound + 1e-12:
                viol(call, "shares-do-not-add-up-to-one", group=list(tl), total=s, bound=bound, x=xs.describe(), over=letters)
                return

    hub.on("FlodymArray.get_shares_over", o_shares)
