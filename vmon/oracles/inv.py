"""C13 / C15 global monitors, evaluated on every wrapper exit (normal or raising).

C13: every array in sight has values.shape == dims.shape over pairwise distinct letters; a call that raised
     left every argument exactly as it was; ill-shaped input is rejected, never stored.
C15: a call that is not explicitly in-place left every argument exactly as it was; results are independent
     objects (no shared memory with the sources, own dimension set).
"""

from __future__ import annotations

import numpy as np

from ..model import DSnap, Snap
from ..attach import FrameSnap, PlotterSnap, StockSnap, SystemSnap
from .common import exc_text

M13 = "shape-invariant"
M13F = "failed-call-atomicity"
M13R = "ill-formed-input-rejected"
M15 = "inputs-unchanged"
M15I = "result-independence"

PROBE_LETTER = "Ψ"

INPLACE_TARGET = {"__setitem__", "set_values", "set_values_from_df", "compute", "set_prms", "__init__"}
INPLACE_IF_FLAG = {"apply", "abs", "sign", "cumsum", "expand_by", "extend", "append", "prepend", "insert", "drop", "remove", "replace"}
INDEPENDENT_RESULT = {"copy", "__add__", "__sub__", "__mul__", "__truediv__", "__pow__", "__radd__", "__rsub__", "__rmul__", "__rtruediv__",
                      "minimum", "maximum", "__neg__", "__abs__", "cast_to", "full_like", "__getitem__"}


def inv_problem(fd, a):
    """None if the array satisfies the invariant, else a short description."""
    try:
        v = a.values
        dl = a.dims.dim_list
    except Exception as e:
        return f"unreadable: {e!r}"
    if not isinstance(v, np.ndarray):
        return f"values is {type(v).__name__}, not ndarray"
    shape = tuple(len(d.items) for d in dl)
    if v.shape != shape:
        return f"values.shape {v.shape} != dims shape {shape}"
    letters = [d.letter for d in dl]
    if len(set(letters)) != len(letters):
        return f"duplicate letters {letters}"
    return None


def arrays_in(fd, x, depth=0):
    if isinstance(x, fd.FlodymArray):
        yield x
    elif isinstance(x, fd.Stock):
        for n in ("stock", "inflow", "outflow"):
            a = x.__dict__.get(n)
            if isinstance(a, fd.FlodymArray):
                yield a
    elif isinstance(x, dict) and depth < 2 and len(x) <= 64:
        for v in x.values():
            yield from arrays_in(fd, v, depth + 1)
    elif isinstance(x, (list, tuple)) and depth < 2 and len(x) <= 64:
        for v in x:
            yield from arrays_in(fd, v, depth + 1)


def same_now(fd, snap, obj):
    if snap is None:
        return True
    try:
        if isinstance(snap, Snap):
            return Snap(obj).same(snap)
        if isinstance(snap, DSnap):
            return DSnap(obj).same(snap)
        if isinstance(snap, StockSnap):
            return StockSnap(obj).same(snap)
        if isinstance(snap, (FrameSnap, SystemSnap, PlotterSnap)):
            return snap.same_as(obj)
        if isinstance(snap, np.ndarray):
            return isinstance(obj, np.ndarray) and obj.shape == snap.shape and obj.dtype == snap.dtype and obj.tobytes() == snap.tobytes()
        if isinstance(snap, list):
            return all(Snap(o).same(s) for o, s in zip(obj, snap))
    except Exception:
        return False
    return True


def register(hub, props=("C13", "C15"), pool=None):
    """pool: optional callable returning the driver's live arrays, scanned on every exit."""
    fd = hub.fd
    rec = hub.rec
    do13, do15 = "C13" in props, "C15" in props
    if do13:
        rec.require(M13, 100)
        rec.require(M13F, 10)
    if do15:
        rec.require(M15, 100)
        rec.require(M15I, 20)

    def monitor(hub, call):
        op = call.op
        short = op.split(".")[-1]
        cls = op.split(".")[0]
        # ---- C13 invariant on everything in sight -----------------------------------
        if do13:
            n = 0
            seen = []
            for src in (call.args, call.kwargs, call.result):
                for a in arrays_in(fd, src):
                    seen.append(a)
            if pool is not None:
                seen.extend(pool())
            for a in seen:
                # an object whose constructor just raised is not a produced array
                if short == "__init__" and call.exc is not None and a is call.args[0]:
                    continue
                n += 1
                p = inv_problem(fd, a)
                if p is not None:
                    rec.violation(M13, f"{short}:{'after-exception' if call.exc is not None else 'after-return'}:array-breaks-shape-invariant",
                                  {"op": op, "problem": p, "exc": exc_text(call.exc) if call.exc else None, "role": "self" if call.args and a is call.args[0] else "other"}, prop="C13")
            if n:
                rec.event(M13, sig=f"{op}|{'exc' if call.exc else 'ret'}", cls=f"invariant|{cls}.{short}|{'exc' if call.exc else 'ret'}", n=n)
        # ---- argument snapshots -------------------------------------------------------
        inplace_target = short in INPLACE_TARGET or (short in INPLACE_IF_FLAG and bool(call.kwargs.get("inplace", _pos_inplace(call, short))))
        changed = []
        checked = 0
        for i, (a, s) in enumerate(zip(call.args, call.pre)):
            if s is None:
                continue
            if call.exc is None and inplace_target and (i == 0 or a is call.args[0]):
                continue  # the documented in-place target (or an alias of it passed again)
            checked += 1
            if not same_now(fd, s, a):
                changed.append(f"arg{i}:{type(a).__name__}")
        for k, s in call.kwpre.items():
            if s is None:
                continue
            checked += 1
            if not same_now(fd, s, call.kwargs[k]):
                changed.append(f"kw:{k}:{type(call.kwargs[k]).__name__}")
        if checked:
            if call.exc is not None:
                if do13:
                    rec.event(M13F, sig=f"{op}|{type(call.exc).__name__}", cls=f"failed|{cls}.{short}")
                    if changed:
                        rec.violation(M13F, f"{short}:failed-call-changed-an-argument", {"op": op, "changed": changed, "exc": exc_text(call.exc)}, prop="C13")
            else:
                if do15:
                    rec.event(M15, sig=f"{op}|{len(call.args)}", cls=f"unchanged|{cls}.{short}")
                    if changed:
                        rec.violation(M15, f"{short}:operation-modified-an-input", {"op": op, "changed": changed}, prop="C15")
        # ---- C13: ill-formed input must be rejected -----------------------------------
        if do13:
            _rejections(call, op, short, cls)
        # ---- C15: independence of results ----------------------------------------------
        if do15 and call.exc is None:
            _independence(call, op, short, cls)

    def _pos_inplace(call, short):
        pos = {"apply": 3, "abs": 1, "sign": 1, "cumsum": 2, "expand_by": 2, "extend": 2, "append": 2, "prepend": 2, "insert": 3, "drop": 2, "remove": 2, "replace": 3}.get(short)
        if pos is not None and len(call.args) > pos:
            return call.args[pos]
        return False

    def _rejections(call, op, short, cls):
        if cls == "FlodymArray" and short == "__init__":
            dims = call.kwargs.get("dims")
            vals = call.kwargs.get("values")
            if isinstance(dims, fd.DimensionSet) and isinstance(vals, np.ndarray):
                shape = tuple(len(d.items) for d in dims.dim_list)
                bad = vals.shape != shape
                rec.event(M13R, sig=f"init|{shape}|{vals.shape}", cls="construct|" + ("wrong-shape" if bad else "right-shape"))
                if bad and call.exc is None:
                    rec.violation(M13R, "constructor-accepted-ndarray-of-other-shape", {"dims_shape": list(shape), "values_shape": list(vals.shape)}, prop="C13")
                if not bad and call.exc is not None and vals.dtype.kind in "fiub":
                    rec.violation(M13R, "constructor-rejected-ndarray-of-right-shape", {"dims_shape": list(shape), "exc": exc_text(call.exc)}, prop="C13")
        elif cls == "FlodymArray" and short == "set_values":
            vals = call.arg(1, "values")
            xs = call.pre[0]
            if isinstance(vals, np.ndarray) and isinstance(xs, Snap):
                bad = vals.shape != xs.shape
                rec.event(M13R, sig=f"set_values|{xs.shape}|{vals.shape}", cls="set_values|" + ("wrong-shape" if bad else "right-shape"))
                if bad and call.exc is None:
                    rec.violation(M13R, "set_values-accepted-ndarray-of-other-shape", {"dims_shape": list(xs.shape), "values_shape": list(vals.shape)}, prop="C13")
        elif cls == "FlodymArray" and short == "__setitem__" and call.arg(1) is Ellipsis:
            vals = call.arg(2)
            xs = call.pre[0]
            if isinstance(vals, np.ndarray) and isinstance(xs, Snap):
                bad = vals.shape != xs.shape
                rec.event(M13R, sig=f"setitem...|{xs.shape}|{vals.shape}", cls="whole-array-assign|" + ("wrong-shape" if bad else "right-shape"))
                if bad and call.exc is None:
                    rec.violation(M13R, "whole-array-assignment-accepted-ndarray-of-other-shape", {"dims_shape": list(xs.shape), "values_shape": list(vals.shape)}, prop="C13")
        elif cls in ("FixedLifetime", "NormalLifetime", "FoldedNormalLifetime", "LogNormalLifetime", "WeibullLifetime") and short in ("__init__", "set_prms"):
            # a parameter array over a dimension the model does not have cannot be cast by label: must be rejected
            if short == "__init__":
                dims = call.kwargs.get("dims")
            else:
                dims = getattr(call.args[0], "dims", None)
            if not isinstance(dims, fd.DimensionSet):
                return
            letters = set(d.letter for d in dims.dim_list)
            prms = [v for k, v in call.kwargs.items() if isinstance(v, fd.FlodymArray)] + [a for a in call.args[1:] if isinstance(a, fd.FlodymArray)]
            if not prms:
                return
            own = {d.letter: tuple(d.items) for d in dims.dim_list}
            foreign = [p for p in prms if any(l not in letters for l in p.dims.letters) or any(tuple(d.items) != own.get(d.letter) for d in p.dims.dim_list)]
            rec.event(M13R, sig=f"{cls}.{short}|{'foreign' if foreign else 'ok'}", cls=f"lifetime-params|{'foreign-dimension' if foreign else 'well-formed'}")
            if foreign and call.exc is None:
                rec.violation(M13R, "lifetime-model-accepted-parameter-with-foreign-dimension", {"class": cls, "op": short, "model_dims": sorted(letters), "param_dims": list(foreign[0].dims.letters)}, prop="C13")
        elif short == "__init__" and cls in ("SimpleFlowDrivenStock", "InflowDrivenDSM", "StockDrivenDSM"):
            dims = call.kwargs.get("dims")
            if not isinstance(dims, fd.DimensionSet):
                return
            letters = tuple(d.letter for d in dims.dim_list)
            own_items = [tuple(d.items) for d in dims.dim_list]
            tl = call.kwargs.get("time_letter", "t")
            why = []
            for n in ("stock", "inflow", "outflow"):
                a = call.kwargs.get(n)
                if isinstance(a, fd.FlodymArray) and tuple(a.dims.letters) != letters:
                    why.append(f"{n}-dims-differ")
                elif isinstance(a, fd.FlodymArray) and [tuple(d.items) for d in a.dims.dim_list] != own_items:
                    why.append(f"{n}-over-a-same-lettered-other-dimension")  # other items under the same letter: not the stock's dimension
            lm = call.kwargs.get("lifetime_model")
            if isinstance(lm, fd.LifetimeModel) and tuple(lm.dims.letters) != letters:
                why.append("lifetime-model-dims-differ")
            elif isinstance(lm, fd.LifetimeModel) and [tuple(d.items) for d in lm.dims.dim_list] != own_items:
                why.append("lifetime-model-over-a-same-lettered-other-dimension")
            if not letters or letters[0] != tl:
                why.append("time-not-first")
            rec.event(M13R, sig=f"{cls}|{letters}|{why}", cls=f"stock-init|{'ill-formed' if why else 'well-formed'}")
            if why and call.exc is None:
                rec.violation(M13R, f"stock-constructor-accepted:{why[0]}", {"class": cls, "dims": list(letters), "problems": why}, prop="C13")

    def _independence(call, op, short, cls):
        if cls != "FlodymArray":
            return
        res = call.result
        if short == "__init__":
            # the dimension set stored in a newly built array is independent of the one passed in
            self = call.args[0]
            dims = call.kwargs.get("dims")
            if isinstance(dims, fd.DimensionSet) and isinstance(call.kwpre.get("dims"), DSnap):
                rec.event(M15I, sig=f"init-dims|{dims.letters}", cls="independence|new-array-dims")
                _dims_probe(self, dims, call.kwpre["dims"], op)
            return
        if short == "__setitem__" and len(call.args) > 2 and isinstance(call.args[2], fd.FlodymArray) and call.args[2] is not call.args[0]:
            t_, s_ = call.args[0], call.args[2]
            rec.event(M15I, sig=f"setitem-alias|{tuple(t_.dims.letters)}", cls="independence|assignment-target-vs-array-source")
            if isinstance(t_.values, np.ndarray) and isinstance(s_.values, np.ndarray) and s_.values.size and np.shares_memory(t_.values, s_.values):
                rec.violation(M15I, "__setitem__:target-shares-memory-with-the-assigned-array", {"op": op, "key": repr(call.args[1])[:80], "target_dims": list(t_.dims.letters), "source_dims": list(s_.dims.letters)}, prop="C15")
            return
        if short == "__setitem__" and len(call.args) > 2 and isinstance(call.args[2], np.ndarray) and call.exc is None:
            # "an ndarray assigned into an array through [] is copied"
            t_, a_ = call.args[0], call.args[2]
            rec.event(M15I, sig=f"setitem-ndarray|{tuple(t_.dims.letters)}|{a_.dtype}", cls="independence|assignment-target-vs-ndarray-source")
            if isinstance(t_.values, np.ndarray) and a_.size and np.shares_memory(t_.values, a_):
                rec.violation(M15I, "__setitem__:target-shares-memory-with-the-assigned-ndarray", {"op": op, "key": repr(call.args[1])[:80], "target_dims": list(t_.dims.letters), "source_dtype": str(a_.dtype), "target_dtype": str(t_.values.dtype)}, prop="C15")
            return
        if isinstance(res, fd.FlodymArray) and call.exc is None:
            # whatever made it: a new array's dimension set is its own object, never one of the sets it was given
            for i, a in list(enumerate(call.args)) + [(k, v) for k, v in call.kwargs.items()]:
                if isinstance(a, fd.DimensionSet) and res.dims is a:
                    rec.violation(M15I, f"{short}:result-holds-the-very-dimension-set-it-was-given", {"op": op, "arg": str(i), "letters": list(a.letters)}, prop="C15")
        if short not in INDEPENDENT_RESULT or not isinstance(res, fd.FlodymArray):
            return
        sources = [(i, a) for i, a in enumerate(call.args) if isinstance(a, fd.FlodymArray)]
        for i, a in list(enumerate(call.args)) + [(k, v) for k, v in call.kwargs.items()]:
            if isinstance(a, np.ndarray) and a.size and isinstance(res.values, np.ndarray) and res.values.size and np.shares_memory(res.values, a):
                rec.violation(M15I, f"{short}:result-shares-memory-with-an-ndarray-argument", {"op": op, "arg": str(i), "shape": list(a.shape)}, prop="C15")
        rec.event(M15I, sig=f"{short}|{len(sources)}|{tuple(res.dims.letters)}", cls=f"independence|{short}")
        for i, s in sources:
            if res is s:
                rec.violation(M15I, f"{short}:returns-its-input", {"op": op, "arg": i}, prop="C15")
                continue
            if isinstance(res.values, np.ndarray) and isinstance(s.values, np.ndarray) and res.values.size and np.shares_memory(res.values, s.values):
                # confirm by a write-through probe
                old = res.values.flat[0].copy()
                before = s.values.copy()
                try:
                    res.values.flat[0] = old + 1 if res.values.dtype.kind in "fiu" else old
                    wrote = not np.array_equal(before, s.values, equal_nan=True)
                finally:
                    res.values.flat[0] = old
                key = call.arg(1) if short == "__getitem__" else None
                rec.violation(M15I, f"{short}:result-shares-memory-with-input",
                              {"op": op, "arg": i, "write_through_confirmed": bool(wrote), "key": repr(key)[:100], "dims": list(s.dims.letters)}, prop="C15")
            snap = call.pre[i]
            if isinstance(snap, Snap):
                _dims_probe(res, s.dims, DSnap(s.dims), op)

    def _dims_probe(new_arr, src_dims, src_snap, op):
        short = op.split(".")[-1]
        if new_arr.dims is src_dims:
            rec.violation(M15I, f"{short}:result-holds-the-very-dimension-set-of-its-source", {"op": op}, prop="C15")
            return
        probe = fd.Dimension(name="vmon probe", letter=PROBE_LETTER, items=["p"])
        def _replace_and_drop():
            # the other in-place edits: a dimension of the result replaced / dropped (and put back); the source goes on answering every
            # lookup as before
            letters0 = list(src_snap.letters)
            if not letters0 or list(new_arr.dims.letters) != letters0:
                return
            first = new_arr.dims[letters0[0]]
            for edit in ("replace", "drop"):
                try:
                    if edit == "replace":
                        new_arr.dims.replace(letters0[0], probe, inplace=True)
                    else:
                        new_arr.dims.drop(letters0[0], inplace=True)
                except Exception:
                    return
                try:
                    problem = None
                    try:
                        if not DSnap(src_dims).same(src_snap):
                            problem = "dimension list changed"
                        elif [src_dims[l_].letter for l_ in letters0] != letters0 or [src_dims[d_[1]].letter for d_ in src_snap.dims] != letters0 or tuple(src_dims.shape) != tuple(len(d_[2]) for d_ in src_snap.dims) or any(l_ not in src_dims for l_ in letters0):
                            problem = "lookups answer differently"
                    except Exception as e_:
                        problem = f"lookup raises {type(e_).__name__}"
                    if problem:
                        rec.violation(M15I, f"{short}:editing-result-dims-changes-source-dims", {"op": op, "edit": edit, "problem": problem}, prop="C15")
                        return
                finally:
                    try:
                        if edit == "replace":
                            new_arr.dims.replace(PROBE_LETTER, first, inplace=True)
                        else:
                            new_arr.dims.insert(0, first, inplace=True)
                    except Exception:
                        pass

        _replace_and_drop()  # first: an append would give the result a fresh lookup table of its own
        try:
            new_arr.dims.append(probe, inplace=True)
        except Exception:
            return
        try:
            if not DSnap(src_dims).same(src_snap):
                rec.violation(M15I, f"{short}:editing-result-dims-changes-source-dims", {"op": op, "source_letters_after": list(DSnap(src_dims).letters)}, prop="C15")
        finally:
            try:
                new_arr.dims.drop(PROBE_LETTER, inplace=True)
            except Exception:
                pass

    hub.on_all(monitor)
