"""M-layer: observing wrappers around flodym's public API.

Only public names are hooked, looked up with getattr; a missing name is recorded, never fatal.
A wrapper snapshots its array / dimension-set / ndarray arguments, calls the real function, and
hands (op, snapshots, live args, result | exception) to the oracles registered for that op and to
the global monitors.  Shadow runs started by a monitor execute with monitoring paused.
"""

from __future__ import annotations

import contextlib
import functools
import os
import sys

import numpy as np

from .core import REPO, Recorder
from .model import DSnap, Snap


def import_flodym():
    """Import flodym from the repository working tree (never from a stale copy)."""
    if REPO not in sys.path:
        sys.path.insert(0, REPO)
    import flodym  # noqa

    f = os.path.realpath(flodym.__file__)
    if not f.startswith(os.path.realpath(REPO) + os.sep):
        raise RuntimeError(f"flodym imported from {f}, expected under {REPO}")
    return flodym


class Call:
    __slots__ = ("op", "args", "kwargs", "pre", "kwpre", "result", "exc", "depth", "state")

    def __init__(self, op, args, kwargs, depth):
        self.op = op
        self.args = args
        self.kwargs = kwargs
        self.pre = None
        self.kwpre = None
        self.result = None
        self.exc = None
        self.depth = depth
        self.state = {}

    def arg(self, i, name=None, default=None):
        if i < len(self.args):
            return self.args[i]
        if name is not None and name in self.kwargs:
            return self.kwargs[name]
        return default

    def prearg(self, i, name=None):
        if i < len(self.args):
            return self.pre[i]
        if name is not None and name in self.kwargs:
            return self.kwpre[name]
        return None


class Hub:
    """Dispatches observed calls to oracles."""

    def __init__(self, rec: Recorder):
        self.rec = rec
        self.paused = 0
        self.depth = 0
        self.oracles: dict[str, list] = {}
        self.global_monitors: list = []
        self.ctx: dict = {}
        self.fd = None  # flodym module
        self.installed = False
        self.originals: dict = {}
        self.op_counts: dict[str, int] = {}
        self.global_dimset = False
        self.paused_hooks: list = []  # called for wrapped calls made while monitoring is paused (harness-internal use of live objects)

    def on(self, op: str, fn):
        self.oracles.setdefault(op, []).append(fn)

    def on_all(self, fn):
        self.global_monitors.append(fn)

    def global_applies(self, op: str) -> bool:
        if self.global_dimset:
            return True
        return not (op.startswith("DimensionSet.") or op.startswith("Dimension."))

    @contextlib.contextmanager
    def pause(self):
        self.paused += 1
        try:
            yield
        finally:
            self.paused -= 1

    # snapshots ------------------------------------------------------------
    def snap(self, x):
        fd = self.fd
        try:
            if isinstance(x, fd.FlodymArray):
                return Snap(x)
            if isinstance(x, fd.DimensionSet):
                return DSnap(x)
            if isinstance(x, np.ndarray):
                return x.copy() if x.size <= 200000 else None
            if isinstance(x, fd.Stock):
                return StockSnap(x)
            if type(x).__name__ == "DataFrame" and x.size <= 200000:
                return FrameSnap(x)
            if isinstance(x, fd.MFASystem):
                return SystemSnap(x)
            if type(x).__name__ in ("PlotlySankeyPlotter", "PlotlyArrayPlotter", "PyplotArrayPlotter"):
                return PlotterSnap(self, x)
            if isinstance(x, (list, tuple)) and 0 < len(x) <= 64 and all(isinstance(e, fd.FlodymArray) for e in x):
                return [Snap(e) for e in x]
        except Exception:
            return None
        return None


class PlotterSnap:
    """what a plotter was given: the system or the array (the x array may legitimately be replaced by its cast)"""

    __slots__ = ("mfa", "array")

    def __init__(self, hub, p):
        d = p.__dict__
        self.mfa = SystemSnap(d["mfa"]) if d.get("mfa") is not None else None
        self.array = Snap(d["array"]) if d.get("array") is not None else None

    def same_as(self, p):
        d = p.__dict__
        if self.mfa is not None and not self.mfa.same_as(d.get("mfa")):
            return False
        if self.array is not None and not Snap(d.get("array")).same(self.array):
            return False
        return True


class SystemSnap:
    """deep snapshot of an MFASystem: dims, every flow, parameter and stock array"""

    __slots__ = ("dims", "flows", "parameters", "stocks", "processes")

    def __init__(self, m):
        self.dims = DSnap(m.dims)
        self.flows = {n: Snap(f) for n, f in m.flows.items()}
        self.parameters = {n: Snap(p) for n, p in m.parameters.items()}
        self.stocks = {n: StockSnap(st) for n, st in (m.stocks or {}).items()}
        self.processes = [(p.name, p.id) for p in m.processes.values()]

    def same_as(self, m):
        try:
            o = SystemSnap(m)
        except Exception:
            return False
        return (self.dims.same(o.dims) and self.processes == o.processes and self.flows.keys() == o.flows.keys() and all(self.flows[n].same(o.flows[n]) for n in self.flows)
                and self.parameters.keys() == o.parameters.keys() and all(self.parameters[n].same(o.parameters[n]) for n in self.parameters)
                and self.stocks.keys() == o.stocks.keys() and all(self.stocks[n].same(o.stocks[n]) for n in self.stocks))


class FrameSnap:
    """deep snapshot of a pandas DataFrame (values, column labels and dtypes, index)"""

    __slots__ = ("df",)

    def __init__(self, df):
        self.df = df.copy(deep=True)

    def same_as(self, df):
        a = self.df
        try:
            return (list(a.columns) == list(df.columns) and list(a.dtypes.astype(str)) == list(df.dtypes.astype(str)) and list(a.index.names) == list(df.index.names)
                    and a.index.equals(df.index) and a.equals(df))
        except Exception:
            return False


class StockSnap:
    __slots__ = ("stock", "inflow", "outflow", "dims")

    def __init__(self, s):
        self.stock = Snap(s.stock) if s.__dict__.get("stock") is not None else None
        self.inflow = Snap(s.inflow) if s.__dict__.get("inflow") is not None else None
        self.outflow = Snap(s.outflow) if s.__dict__.get("outflow") is not None else None
        self.dims = DSnap(s.dims) if s.__dict__.get("dims") is not None else None

    def same(self, o):
        def eq(a, b):
            return (a is None and b is None) or (a is not None and b is not None and a.same(b))

        return eq(self.stock, o.stock) and eq(self.inflow, o.inflow) and eq(self.outflow, o.outflow) and eq(self.dims, o.dims)


def _make_wrapper(hub: Hub, op: str, orig, skip_self_snapshot=False):
    @functools.wraps(orig)
    def wrapper(*args, **kwargs):
        if hub.paused:
            if hub.paused_hooks:
                for h in hub.paused_hooks:
                    h(op, args)
            return orig(*args, **kwargs)
        oracles = hub.oracles.get(op)
        gmons = hub.global_monitors if (hub.global_monitors and hub.global_applies(op)) else ()
        if not oracles and not gmons:
            return orig(*args, **kwargs)
        hub.op_counts[op] = hub.op_counts.get(op, 0) + 1
        call = Call(op, args, kwargs, hub.depth)
        # pre: snapshots taken with monitoring paused (snapshots must not generate events)
        hub.paused += 1
        try:
            call.pre = [None if (skip_self_snapshot and i == 0) else hub.snap(a) for i, a in enumerate(args)]
            call.kwpre = {k: hub.snap(v) for k, v in kwargs.items()}
            for o in oracles or ():
                pre = getattr(o, "pre", None)
                if pre is not None:
                    try:
                        pre(hub, call)
                    except Exception:
                        hub.rec.inconclusive(f"oracle pre-hook {o} crashed on {op}: {_tb()}")
        finally:
            hub.paused -= 1
        hub.depth += 1
        try:
            call.result = orig(*args, **kwargs)
        except Exception as e:  # noqa
            call.exc = e
        finally:
            hub.depth -= 1
        hub.paused += 1
        try:
            for o in list(oracles or ()) + list(gmons):
                try:
                    o(hub, call)
                except Exception:
                    hub.rec.inconclusive(f"oracle {getattr(o, '__name__', o)} crashed on {op}: {_tb()}")
        finally:
            hub.paused -= 1
        if call.exc is not None:
            raise call.exc
        return call.result

    wrapper.__vmon_orig__ = orig
    return wrapper


def _tb():
    import traceback

    return traceback.format_exc()[-900:]


ARRAY_OPS = """__init__ __add__ __sub__ __mul__ __truediv__ __pow__ __radd__ __rsub__ __rmul__ __rtruediv__
__neg__ __abs__ minimum maximum abs sign apply cumsum copy sum_to sum_over sum_values sum_values_to
sum_values_over cast_to cast_values_to get_shares_over __getitem__ __setitem__ set_values to_df
set_values_from_df split items_where""".split()
ARRAY_CLASSMETHODS = "from_df full full_like scalar from_dims_superset".split()
DIMSET_OPS = """__init__ copy get_subset expand_by extend append prepend insert drop remove replace intersect_with
union_with difference_with __and__ __or__ __add__ __sub__ __xor__ __getitem__ __contains__ index size""".split()
DIM_OPS = "__add__ as_dimset is_subset is_superset index".split()
STOCK_OPS = "compute check_stock_balance get_stock_balance get_stock_by_cohort get_outflow_by_cohort to_stock_type".split()
SYSTEM_OPS = "check_mass_balance check_flows get_new_array".split()


def install(hub: Hub):
    """Attach wrappers.  Idempotent per process."""
    fd = import_flodym()
    hub.fd = fd
    if getattr(fd, "__vmon_hub__", None) is not None:
        # re-point the existing wrappers to the new hub is not supported: one hub per process
        raise RuntimeError("vmon already installed in this process")
    fd.__vmon_hub__ = hub
    rec = hub.rec

    def wrap_method(cls, name, opname=None, skip_self=False):
        opname = opname or f"{cls.__name__}.{name}"
        try:
            raw = None
            for k in cls.__mro__:
                if name in k.__dict__:
                    raw = k.__dict__[name]
                    break
            if raw is None:
                raise AttributeError(name)
            if isinstance(raw, classmethod):
                w = classmethod(_make_wrapper(hub, opname, raw.__func__, skip_self_snapshot=True))
            elif isinstance(raw, staticmethod):
                w = staticmethod(_make_wrapper(hub, opname, raw.__func__))
            elif isinstance(raw, property):
                w = property(_make_wrapper(hub, opname, raw.fget), raw.fset, raw.fdel, raw.__doc__)
            else:
                w = _make_wrapper(hub, opname, raw, skip_self_snapshot=skip_self)
            setattr(cls, name, w)
            rec.hooks_attached.append(opname)
        except Exception as e:
            rec.hooks_missing.append(f"{opname} ({type(e).__name__})")

    A = fd.FlodymArray
    for n in ARRAY_OPS:
        wrap_method(A, n, skip_self=(n == "__init__"))
    for n in ARRAY_CLASSMETHODS:
        wrap_method(A, n)
    D = fd.DimensionSet
    for n in DIMSET_OPS:
        wrap_method(D, n, skip_self=(n == "__init__"))
    for n in DIM_OPS:
        wrap_method(fd.Dimension, n)
    for cls in (fd.SimpleFlowDrivenStock, fd.InflowDrivenDSM, fd.StockDrivenDSM):
        for n in STOCK_OPS:
            # each class gets its own wrapper so the op name carries the class
            wrap_method(cls, n)
        wrap_method(cls, "__init__", skip_self=True)
    for cls in (fd.FixedLifetime, fd.NormalLifetime, fd.FoldedNormalLifetime, fd.LogNormalLifetime, fd.WeibullLifetime):
        for n in ("set_prms", "sf", "pdf"):
            wrap_method(cls, n)
        wrap_method(cls, "__init__", skip_self=True)
    for n in SYSTEM_OPS:
        wrap_method(fd.MFASystem, n)
    for n in ("from_data_reader", "from_csv", "from_excel"):
        wrap_method(fd.MFASystem, n)

    # module-level helpers: rebind in every flodym module that imported them
    def wrap_function(modname, name):
        opname = name
        try:
            mod = sys.modules[modname]
            orig = getattr(mod, name)
            w = _make_wrapper(hub, opname, orig)
            for m in list(sys.modules.values()):
                mn = getattr(m, "__name__", "")
                if mn == "flodym" or mn.startswith("flodym."):
                    if getattr(m, name, None) is orig:
                        setattr(m, name, w)
            rec.hooks_attached.append(opname)
        except Exception as e:
            rec.hooks_missing.append(f"{opname} ({type(e).__name__})")

    wrap_function("flodym.processes", "make_processes")
    wrap_function("flodym.flow_helper", "make_empty_flows")
    wrap_function("flodym.stock_helper", "make_empty_stocks")
    wrap_function("flodym.flodym_array_helper", "flodym_array_stack")
    hub.installed = True
    return fd


def install_export_hooks(hub: Hub):
    """wrap the export functions and plotters (imports plotly / matplotlib, so only the checks that need them call this)"""
    import importlib

    rec = hub.rec
    if getattr(hub, "_export_hooks", False):
        return
    hub._export_hooks = True
    ex = importlib.import_module("flodym.export")
    dw = importlib.import_module("flodym.export.data_writer")
    for name in ("convert_to_dict", "export_mfa_to_pickle", "export_mfa_flows_to_csv", "export_mfa_stocks_to_csv"):
        try:
            orig = getattr(dw, name)
            w = _make_wrapper(hub, name, orig)
            for m in (dw, ex):
                if getattr(m, name, None) is orig:
                    setattr(m, name, w)
            rec.hooks_attached.append(name)
        except Exception as e:
            rec.hooks_missing.append(f"{name} ({type(e).__name__})")
    for modname, clsname in (("flodym.export.sankey", "PlotlySankeyPlotter"), ("flodym.export.array_plotter", "PlotlyArrayPlotter"), ("flodym.export.array_plotter", "PyplotArrayPlotter")):
        try:
            cls = getattr(importlib.import_module(modname), clsname)
            raw = None
            for k in cls.__mro__:
                if "plot" in k.__dict__:
                    raw = k.__dict__["plot"]
                    break
            setattr(cls, "plot", _make_wrapper(hub, f"{clsname}.plot", raw))
            for init_owner in (cls,):
                for k in init_owner.__mro__:
                    if "__init__" in k.__dict__:
                        setattr(cls, "__init__", _make_wrapper(hub, f"{clsname}.__init__", k.__dict__["__init__"], skip_self_snapshot=True))
                        break
            rec.hooks_attached.append(f"{clsname}.plot")
        except Exception as e:
            rec.hooks_missing.append(f"{clsname}.plot ({type(e).__name__})")
