"""W-layer helpers: dimension universes, ordered subsets, value regimes (tagged / dyadic / real / taint)."""

from __future__ import annotations

import itertools

import numpy as np

LETTERS = "abcde"
NAMES = {"a": "alpha", "b": "beta", "c": "gamma", "d": "delta", "e": "epsilon", "t": "time"}
ITEMS = {
    "a": ["a1", "a2", "a3", "a4", "a5"],
    "b": [10, 20, 30, 40, 50],
    "c": ["c1", "c2", "c3", "c4", "c5"],
    "d": [1.5, 2.5, 3.5, 4.5, 5.5],
    "e": ["e1", "e2", "e3", "e4", "e5"],
}
DTYPES = {"a": str, "b": int, "c": None, "d": None, "e": str}

PRIMES = [p for p in range(2, 1200) if all(p % q for q in range(2, int(p**0.5) + 1))]


ITEMS_ALT = {
    "a": ["a1", "a10", "a100", "a2", "a 1", "A1", "a1 "],  # prefixes of each other, case and blank variants
    "b": [2001, 2002, 2003, 2004, 2005, 2006, 2007],  # consecutive integers (look like positions / years)
    "c": ["c1", "c2", "c3", "c4", "c5", "c6", "c7"],
    "d": [1.5, 2.5, 3.5, 4.5, 5.5, 6.5, 7.5],
    "e": ["e1", "e2", "e3", "e4", "e5", "e6", "e7"],
}


def universe(fd, lengths: dict, typed=True, rng=None, twin_names=False):
    """dict letter -> Dimension with the given number of items.
    With rng: the items are a random selection in random order from a larger pool, so that within one process the same
    (name, letter, length) comes with different labels and orders (anything remembered per name/letter/length would show)."""
    out = {}
    names = dict(NAMES)
    if rng is not None and len(lengths) > 1 and rng.random() < 0.25:
        # the same NAMES attached to other letters than in earlier universes of this process (a name says nothing about the letter)
        ls = list(lengths)
        for a_, b_ in zip(ls, [ls[j] for j in rng.permutation(len(ls))]):
            names[a_] = NAMES[b_]
    if twin_names and rng is not None and len(lengths) > 1 and rng.random() < 0.15:
        # two dimensions of one NAME under two letters (origin region / destination region): the letter is what identifies a dimension
        ls = list(lengths)
        j_, k_ = (int(q) for q in rng.permutation(len(ls))[:2])
        names[ls[j_]] = names[ls[k_]]
    for l, n in lengths.items():
        kw = {}
        if typed and DTYPES.get(l) is not None:
            kw["dtype"] = DTYPES[l]
        if rng is None:
            items = list(ITEMS[l][:n])
        else:
            pool = ITEMS_ALT[l] if (l != "b" or rng.random() < 0.6) else [10, 20, 30, 40, 50, 60, 70]
            if l == "b" and pool is ITEMS_ALT["b"] and rng.random() < 0.5:
                start = int(rng.integers(0, len(pool) - n + 1))
                items = pool[start : start + n]  # consecutive run ...
                if rng.random() < 0.5:
                    items = [items[j] for j in rng.permutation(n)]  # ... possibly not ascending
            else:
                items = [pool[j] for j in rng.permutation(len(pool))[:n]]
        own = list(items)
        out[l] = fd.Dimension(letter=l, name=names[l], items=own, **kw)
        if rng is not None and rng.random() < 0.3:
            own.reverse()  # the user's own list is edited later on: the dimension keeps the items it was given
            own.append(own[0])
    return out


def dimset(fd, U, letters):
    return fd.DimensionSet(dim_list=[U[l] for l in letters])


def ordered_subsets(letters, max_len=None):
    out = []
    for k in range(0, (max_len if max_len is not None else len(letters)) + 1):
        out.extend(itertools.permutations(letters, k))
    return out


LENGTH_PATTERNS = {
    3: [(2, 2, 2), (3, 3, 3), (1, 2, 3), (2, 3, 2)],
    4: [(2, 2, 2, 2), (1, 2, 3, 4), (3, 2, 3, 2), (2, 3, 2, 1)],
    5: [(2, 2, 2, 2, 2), (1, 2, 3, 2, 3), (3, 2, 1, 2, 2)],
}


def shape_of(U, letters):
    return tuple(len(U[l].items) for l in letters)


# --- value regimes -------------------------------------------------------------


def tagged_powers(shape, offset=0):
    """entry i = 2**(offset+i): every subset sum names exactly the entries that were combined."""
    n = int(np.prod(shape)) if shape else 1
    return np.array([2.0 ** (offset + i) for i in range(n)], dtype=float).reshape(shape), n


def tagged_primes(shape, offset=0):
    n = int(np.prod(shape)) if shape else 1
    return np.array(PRIMES[offset : offset + n], dtype=float).reshape(shape), n


def tagged_pow2_cycle(shape):
    n = int(np.prod(shape)) if shape else 1
    return np.array([2.0 ** ((i % 21) - 10) for i in range(n)], dtype=float).reshape(shape)


def dyadic(rng: np.random.Generator, shape, zeros=True, lo=-4096, hi=4096):
    v = rng.integers(lo, hi + 1, size=shape).astype(float) / 8.0
    if zeros and v.size > 2:
        v.flat[rng.integers(0, v.size)] = 0.0
    return v


def reals(rng: np.random.Generator, shape, zeros=True, positive=False):
    mag = 10.0 ** rng.uniform(-3, 6, size=shape)
    v = rng.standard_normal(size=shape) * mag
    if positive:
        v = np.abs(v) + 1e-3
    if zeros and v.size > 2 and not positive:
        v.flat[rng.integers(0, v.size)] = 0.0
    return v


def nonzero(v, rng):
    v = np.array(v, dtype=float)
    z = v == 0
    if z.any():
        v[z] = rng.integers(1, 9, size=int(z.sum())).astype(float)
    return v


def values_pair(regime, kind, rng, sx, sy):
    """Operand values for a binary operation of the given kind under a regime.
    Returns (vx, vy) float arrays; falls back to dyadic when the tagged range would overflow."""
    nx = int(np.prod(sx)) if sx else 1
    ny = int(np.prod(sy)) if sy else 1
    if regime == "tagged":
        if kind in ("add", "sub", "min", "max", "sum"):
            if nx + ny <= 52:
                vx, _ = tagged_powers(sx, 0)
                vy, _ = tagged_powers(sy, nx)
                return vx, vy
        elif kind == "mul":
            if nx + ny <= len(PRIMES):
                vx, _ = tagged_primes(sx, 0)
                vy, _ = tagged_primes(sy, nx)
                return vx, vy
        elif kind == "div":
            if nx <= len(PRIMES):
                vx, _ = tagged_primes(sx, 1)  # odd primes
                return vx, tagged_pow2_cycle(sy)
        elif kind == "pow":
            vx = rng.integers(1, 6, size=sx).astype(float)
            vy = rng.integers(0, 4, size=sy).astype(float)
            return vx, vy
        regime = "dyadic"
    if regime == "dyadic":
        vx, vy = dyadic(rng, sx), dyadic(rng, sy)
        if kind == "div":
            vy = 2.0 ** rng.integers(-6, 7, size=sy).astype(float) * rng.choice([-1.0, 1.0], size=sy)
        if kind == "pow":
            vx = np.abs(vx) + 0.125
            vy = rng.integers(-2, 4, size=sy).astype(float)
        return vx, vy
    if regime == "wide":
        # magnitudes from 1e-100 to 1e100 (products and quotients stay finite), mixed signs, negative zero
        def w(shape):
            v = rng.standard_normal(size=shape) * 10.0 ** rng.uniform(-100, 100, size=shape)
            if v.size > 2:
                v.flat[rng.integers(0, v.size)] = -0.0
            return v
        vx, vy = w(sx), w(sy)
        if kind == "div":
            vy = np.where(vy == 0, 1e-50, vy)
        if kind == "pow":
            vx = np.abs(reals(rng, sx, zeros=False)) ** 0.25 + 0.01
            vy = rng.uniform(-2, 3, size=sy)
        return vx, vy
    if regime in ("real", "taint"):
        vx, vy = reals(rng, sx), reals(rng, sy)
        if kind == "div":
            vy = nonzero(vy, rng)
        if kind == "pow":
            vx = np.abs(reals(rng, sx, zeros=False)) ** 0.25 + 0.01
            vy = rng.uniform(-2, 3, size=sy)
        if regime == "taint":
            tgt = vx if (rng.random() < 0.5 or vy.size == 0) and vx.size else vy
            if tgt.size:
                tgt.flat[rng.integers(0, tgt.size)] = np.nan
        return vx, vy
    raise ValueError(regime)


def relayout(v, rng):
    """same values, another memory layout: C, Fortran order, or a strided view (hostile: code relying on C order)"""
    v = np.asarray(v)
    if v.ndim < 2 or v.size < 2:
        return v
    r = rng.random()
    if r < 0.34:
        return v
    if r < 0.67:
        return np.asfortranarray(v)
    big = np.zeros(tuple(2 * n for n in v.shape), dtype=v.dtype)
    view = big[tuple(slice(None, None, 2) for _ in v.shape)]
    view[...] = v
    return view


def values_one(regime, rng, shape, layout=False):
    if layout:
        return relayout(values_one(regime, rng, shape), rng)
    if regime == "tagged":
        n = int(np.prod(shape)) if shape else 1
        if n <= 52:
            return tagged_powers(shape, 0)[0]
        regime = "dyadic"
    if regime == "dyadic":
        return dyadic(rng, shape)
    if regime == "ints":
        return rng.integers(-9, 30, size=shape)  # integer dtype
    if regime == "wide":
        v = rng.standard_normal(size=shape) * 10.0 ** rng.uniform(-100, 100, size=shape)
        if v.size > 2:
            v.flat[rng.integers(0, v.size)] = -0.0
        return v
    v = reals(rng, shape)
    if regime == "taint" and v.size:
        v.flat[rng.integers(0, v.size)] = np.nan
    return v


def permute_array(fd, arr, order):
    """Same array, dimensions stored in another order (values transposed accordingly)."""
    letters = list(arr.dims.letters)
    axes = [letters.index(l) for l in order]
    dims = fd.DimensionSet(dim_list=[arr.dims[l] for l in order])
    return type(arr)(dims=dims, values=np.ascontiguousarray(np.transpose(arr.values, axes)), name=arr.name) if type(arr) is fd.FlodymArray else fd.FlodymArray(dims=dims, values=np.ascontiguousarray(np.transpose(arr.values, axes)), name=arr.name)


class Fresh:
    """Proxy handing out a private copy of an array for every attribute access / operator, so that a defect which
    mutates its input cannot mask later cases of the same driver."""

    def __init__(self, hub, arr):
        object.__setattr__(self, "_hub", hub)
        object.__setattr__(self, "_arr", arr)

    _count = [0]

    def new(self):
        hub, arr = self._hub, self._arr
        fd = hub.fd
        Fresh._count[0] += 1
        # the subclasses inherit every operation: cycle through them
        cls = (fd.FlodymArray, fd.Parameter, fd.StockArray, fd.FlodymArray)[Fresh._count[0] % 4]
        with hub.pause():
            new = cls(dims=arr.dims, values=arr.values.copy(order="K"), name=arr.name)
            # ... and sometimes an object that went through a copy or a serialisation before it is used
            how = Fresh._count[0] % 13
            try:
                if how == 5:
                    import pickle

                    new = pickle.loads(pickle.dumps(new))
                elif how == 8:
                    import copy

                    new = copy.deepcopy(new)
                elif how == 11:
                    new = new.model_copy(deep=True)
            except Exception:
                pass
            return new

    def __getattr__(self, name):
        return getattr(self.new(), name)

    def __getitem__(self, key):
        return self.new()[key]

    def __add__(self, o):
        return self.new() + o

    def __radd__(self, o):
        return o + self.new()

    def __sub__(self, o):
        return self.new() - o

    def __rsub__(self, o):
        return o - self.new()

    def __mul__(self, o):
        return self.new() * o

    def __rmul__(self, o):
        return o * self.new()

    def __truediv__(self, o):
        return self.new() / o

    def __rtruediv__(self, o):
        return o / self.new()

    def __pow__(self, o):
        return self.new() ** o

    def __neg__(self):
        return -self.new()

    def __abs__(self):
        return abs(self.new())


def np_spelled(item, rng, p=0.25):
    """the same label as a numpy scalar (np.int64 / np.str_ / np.float64): labels compare with =="""
    if rng.random() >= p:
        return item
    if isinstance(item, bool):
        return item
    if isinstance(item, int):
        return np.int64(item)
    if isinstance(item, float):
        return np.float64(item)
    if isinstance(item, str):
        return np.str_(item)
    return item


def big_universe(fd, rng):
    """a few LONG dimensions (tens to hundreds of items): large arrays reach size-dependent code paths"""
    n = {"a": int(rng.integers(40, 72)), "b": int(rng.integers(60, 140)), "c": int(rng.integers(24, 48)), "d": int(rng.integers(3, 9))}
    start = int(rng.integers(1900, 2000))
    return {
        "a": fd.Dimension(letter="a", name=NAMES["a"], items=[f"a{i:03d}" for i in rng.permutation(n["a"])], dtype=str),
        "b": fd.Dimension(letter="b", name=NAMES["b"], items=[start + i for i in range(n["b"])], dtype=int),
        "c": fd.Dimension(letter="c", name=NAMES["c"], items=[f"c{i}" for i in range(n["c"])]),
        "d": fd.Dimension(letter="d", name=NAMES["d"], items=[i + 0.5 for i in range(n["d"])]),
    }


def big_values(rng, shape, regime):
    if regime == "dyadic":
        return rng.integers(-2048, 2049, size=shape).astype(float) / 8.0
    return rng.standard_normal(size=shape) * 10.0 ** rng.uniform(-2, 4, size=shape)
