#!/usr/bin/env python3
"""Regenerates MANIFEST.json from the check modules present (keeps it valid at all times)."""
import json, os, importlib.util, re
HERE = os.path.dirname(os.path.abspath(__file__))
props = {json.loads(l)["id"]: json.loads(l) for l in open(os.path.join(HERE, "properties.jsonl"))}
TECH = {
 "C01": "runtime monitor: API-wrapper oracle vs label-keyed exact reference (tagged values, dyadics, reals, NaN taint) on exhaustive operand-pair enumeration",
 "C02": "runtime monitor: exact rational reference balance per process vs observed raise/warn outcome on generated systems with single-entry perturbations",
 "C03": "runtime monitor: conservation oracle on every compute() plus perturbation probes of check_stock_balance; bystander ring re-checks earlier stocks while other objects are used",
 "C04": "relational runtime monitor: permutation shadow runs of the real code in every storage order",
 "C05": "runtime monitor: API-wrapper oracle on every assignment vs evolving label-keyed model; failure atomicity; copy probe",
 "C06": "runtime monitor: API-wrapper oracle with independent key-form model on exhaustive selector-kind assignments",
 "C07": "runtime monitor: API-wrapper oracle vs label-keyed marginals/broadcasts on exhaustive kept/summed/cast enumerations",
 "C08": "runtime monitor: invariants + closed-form reference survival tables on every sf/pdf read; bystander ring re-checks earlier tables while other models are used",
 "C09": "runtime monitor: cohort-table conservation oracle after every DSM compute(); bystander ring re-checks earlier stocks",
 "C10": "relational runtime monitor: inverse-model and other-solver shadow runs with condition-scaled tolerance; bystander ring on earlier stocks",
 "C11": "runtime monitor: reference frame reader / unique cell values on to_df and from_df across layouts and permutations",
 "C12": "runtime monitor with fault injection: fault-aware accept/reject oracle over injected data faults x flag combinations",
 "C13": "global invariant monitor on every wrapper exit + pool scan over random programs with ill-formed steps",
 "C14": "runtime monitor: lock-step ordered-list model + independence probes on every DimensionSet call",
 "C15": "global input-snapshot monitor + write-through/shares-memory probes on results",
 "C16": "relational runtime monitor: truncation, superposition, label-slice, shift and impulse shadow runs; bystander ring on earlier stocks",
 "C17": "history monitor: fresh-twin shadow after every compute() in re-parameterisation histories incl. refused steps; bystander ring on earlier stocks and tables",
 "C18": "runtime monitor: attribute-by-attribute comparison of built systems/files against generated definitions",
 "C19": "runtime monitor: export content vs system snapshot, re-import, audit-hook file events",
 "C20": "runtime monitor: figure data (links / traces / lines) vs label-keyed reference",
}

TEXT = {
 "C01": "Every operator call on the real code is judged against an exact label-keyed reference. Exhaustive over all ordered pairs of ordered dimension subsets of a 3-letter (quick) / 4-letter (thorough) universe x 7 operators x length patterns; values are tagged (result names the entries combined), dyadic (==), random reals (derived tolerance) and NaN-tainted (dependency sets). 'All real values' is approached by tagged values + identical executed line sequences across value regimes (trace equivalence), not proved. Also: operands of 10^4-10^6 entries (vectorised twin), narrow / wide integer dtypes, two letters carrying one name.",
 "C02": "Observed raise/warn outcome of check_mass_balance / check_flows vs an exact rational per-process balance on generated systems (self-loops, parallel/opposing flows, mixed dims, stocks with/without process, idle processes, no stocks, integer flows) with single-entry perturbations straddling the tolerance; the boundary itself is judged in the dyadic regime. Random exploration, not exhaustive. Also: the same system object re-wired in place (refused check, repair, move, move back), re-keyed / shuffled / rebuilt-from-copies systems, many tiny residuals.",
 "C03": "Conservation identity checked on every compute() of all stock classes/solvers over random lifetime models, parameter shapes and unit/constant/uneven grids, plus accept/reject probes of the library's own balance check and 'compute keeps its driver'. Random exploration. Also: far-tail lifetimes with large throughputs, refused compute then corrected inputs, look-alike offers of the lifetime model, bystander ring.",
 "C04": "Relational: every observed operation is replayed on the real code with each participating array stored in every other dimension order (all k! x k! pairs up to 4 dims in the thorough tier) and must give the same entries under the same labels and the documented result order. Exhaustive over storage orders per operation configuration; configurations are a fixed list (thorough: all operand-dims pairs over 3 letters). Also: frames (incl. unnamed MultiIndex, mixed headers) and lifetime parameters over every subset of the model's dimensions in every order; large arrays; wide-magnitude values.",
 "C05": "Every assignment judged against the pre-state model: dims kept, outside entries bit-identical, source summed by label, missing source dimension / wrong-shape ndarray rejected, nothing changed on failure, ndarray copied, no aliasing with an array source; all selector-kind assignments x rhs kinds + assignment histories. Also: sources of 10^5-10^6 entries, long list keys with varying sources, key objects reused across arrays, read-only / other-dtype / wide sources.",
 "C06": "Independent model of the key forms; exhaustive over all 3^n read and 4^n write selector-kind assignments (n=4 quick, 5 thorough) x length patterns x subset orders x key spellings, plus the must-raise classes, items_where and split. Also: arrays of 10^4-10^6 entries with scrambled long dimensions, near-type keys, close float labels, key objects reused across arrays and copies.",
 "C07": "Every reduction/cast/share call judged by label against exact marginals/broadcasts; exhaustive over kept/summed subsets, cast target orders, cumsum letters and share subsets for every storage order of 3 (quick) / 4 (thorough) dims, three spellings of dimensions; composition laws. Also: large arrays, narrow-integer totals (incl. after in-place writes), long cumsum axes, positional spellings.",
 "C08": "Invariants and equality (1e-11) with closed-form survival functions and independently computed Gauss-Lobatto rules on every sf/pdf read, using the parameters the model holds and the driver's by-label ground truth; all 9 shipped quadrature rules compared exhaustively; random models/grids/parameter shapes incl. exact age=lifetime ties. Also: refused reads followed by corrected settings / new parameters, length-one-axis parameter arrays, half/single precision and integer parameters, copies of models, wide tables, bystander ring.",
 "C09": "Cohort-table identities (sums, zero above the diagonal, inflow*dt*survival, monotone, per-cohort conservation) on every DSM compute() over the C03 matrix. Random exploration. Also: table behind the cohorts vs the distribution, caller's parameter buffers refilled before compute, refused compute then corrected inputs, shallow model copies, zero drivers, nearly unsolvable labels.",
 "C10": "Relational shadow runs: ID->SD (both solvers, fresh and shared lifetime model), SD->ID, manual==lapack, prescribed stock kept; normwise tolerance scaled by the condition number; ill-conditioned cases skipped and counted. Also: to_stock_type route, solver switched on a used object, wide configurations (10^6-10^7 table entries), labels of very different magnitude judged on their own scale.",
 "C11": "to_df judged by an independent reader of the produced frame; from_df judged on frames built by the driver from ground truth (unique cell values) over layouts x header styles x index placement x permutations x omitted singles x CSV round trip x memory layouts x item orders, plus a 40 000-item dimension. Random exploration over a structured space. Also: a complete 12 000-row table out of array order in six presentations, look-alike and missing rows, column type zoo, unnamed / foreign indexes.",
 "C12": "Fault injection at the input: every fault kind at several positions and combinations x 4 flag sets x 5 routes (from_df, set_values_from_df, CSV/Excel parameter readers, MFASystem.from_csv); expected outcome derived from the final frame by an independent reader; refused imports must leave the target bit-identical. Also: one reader reused across rewritten files and for several parameters per call, hostile row indexes, inf values.",
 "C13": "Global invariant monitor on every wrapper exit plus whole-pool scan after each step of random programs with ~30% deliberately ill-formed steps; must-raise rules for constructors, set_values, whole-array assignment, stock and lifetime-model constructors. Also: computes that cannot succeed, look-alike dimensions (other labels, same labels in another order), unstorable cells, the user's own lists edited mid-program.",
 "C14": "Lock-step ordered-list model on every DimensionSet/Dimension call; exhaustive over all ordered pairs of ordered subsets of 4 (quick) / 5 (thorough) letters x 8 binary operators; random in-place/out-of-place histories with independence probes and arrays built from the sets. Also: sets of long dimensions (sizes to 2^62), pickled / copied sets, generator / dict constructions, same-named replacements, sets from empty().",
 "C15": "Deep input snapshots (arrays, dimension sets, ndarrays, data frames, stocks, systems, plotters) compared after every non-in-place call; shares-memory/write-through and dims-edit probes on results; pool-wide aliasing scan over random programs; frames, system building, export and plotting workloads. Also: no-op requests on single-item dimensions, the same key on a fresh copy, generated plotter configurations, system checks with negative entries.",
 "C16": "Relational variant runs: every truncation point, linear combinations, scaling, all unit-impulse responses predicting f(x), every label slice alone, calendar shifts, impulse = survival column x interval length; inflow-driven at 1e-12*n_t, stock-driven condition-scaled. Also: refused-then-valid sequences, zero drivers, shallow model copies, two live objects, look-alike offers, long and framed grids, bystander ring.",
 "C17": "History monitor: fresh-twin comparison after every compute() in random sequences of driver writes / set_prms / reads / computes (incl. all-zero drivers), compute twice, and MFASystem scenario loops over stocks built from definitions (5 scenarios each) plus the shipped example system. Also: refused and degenerate set_prms / compute steps, singular labels, user-written models, two live objects, sibling grids judged against the closed form, first parameters in narrow dtypes.",
 "C18": "Attribute-by-attribute comparison of systems built through the helpers and through from_csv / from_excel / from_data_reader from files the driver writes (orientations, headers, sheets), refusal of 14 kinds of ill-formed definitions, hostile and own-letter labels in dimension files. Also: every file route (csv, named / first sheet, data_reader, user-written reader), reader reuse after a refusal and for two definitions, user subclasses, missing sheets, Path objects, mixed-type label rows.",
 "C19": "Export content (numpy/pandas dict, pickle, CSV) compared with the system snapshot by unique values, re-import through an independent reader and from_df, audit-hook file events (one file per array, inside the directory), system unchanged, MFADefinition.to_dfs cell by cell; hand-assembled systems and non-contiguous arrays included. Also: look-alike dimension names, second to_dfs after an in-place edit, tolerant flags, colliding earlier exports, long names, Path objects.",
 "C20": "Figure data read back from plotly/matplotlib objects and compared with a label-keyed reference: Sankey link multiset and node labels under slices, exclusions, colour splits and shuffled process dictionaries; array plotters for every assignment of 1-3 dims to x/subplot/line roles, names vs letters, x arrays, chart types. Also: display names, a refused first plot, slices by names, earlier figures re-inspected, text labels made of digits.",
}
checks = []
na = []
for pid in sorted(props):
    path = os.path.join(HERE, "vmon", "checks", pid.lower() + ".py")
    if not os.path.exists(path):
        na.append({"property_id": pid, "reason": "check not built yet in this session (planned, see DESIGN.md section 5); nothing is claimed"})
        continue
    src = open(path).read()
    level = re.search(r'^LEVEL = "(\w+)"', src, re.M).group(1)
    checks.append({
        "property_id": pid,
        "quick_cmd": f"./vcheck {pid} quick",
        "thorough_cmd": f"./vcheck {pid} thorough",
        "evidence_file": f"evidence/{pid}.json",
        "replay_cmd_template": f"./vcheck {pid} --replay {{path}}",
        "engine": "vmon",
        "level_claimed": {"category": level,
            "text": TEXT[pid] + " Held on the executions listed in the evidence file; not a proof.",
            "design_ref": f"DESIGN.md section 5 ({pid})"},
        "level_note": "trusted base: CPython, numpy, pandas, scipy and the reference models in vmon/model.py; says nothing about configurations the workload never produced",
        "technique": TECH[pid],
    })
m = {
 "version": 1,
 "setup_cmd": "./vcheck --setup",
 "hooks": {"guard": "FLODYM_VERIF", "enable": "no instrumentation lives in /repo: monitors attach from outside by wrapping public API names at import time (vmon/attach.py); ./vcheck sets FLODYM_VERIF=1 only for documentation", 
           "baseline_off_cmd": "cd /repo && /venv/bin/python -m pytest -ra -q -p no:cacheprovider --timeout=900 --continue-on-collection-errors", "source_commits": [], "add_only": True},
 "engines": [{"name": "vmon", "path": "vmon/", "serves_properties": [c["property_id"] for c in checks], "kind_free_text": "runtime monitors (API wrappers, reference-model oracles, shadow runs, fault injection) driven by generated workloads"}],
 "checks": checks,
 "not_applicable": na,
 "notes": "exit 0 held / exit 1 + VIOLATION line / exit 2 + INCONCLUSIVE line (never folded into held). Genuine defects found are repaired by fix: commits in /repo and listed in known_findings.json.",
}
json.dump(m, open(os.path.join(HERE, "MANIFEST.json"), "w"), indent=1)
print("checks:", [c["property_id"] for c in checks], "n/a:", len(na))
