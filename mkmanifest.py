#!/usr/bin/env python3
"""Regenerates MANIFEST.json from the check modules present (keeps it valid at all times)."""
import json, os, importlib.util, re
HERE = os.path.dirname(os.path.abspath(__file__))
props = {json.loads(l)["id"]: json.loads(l) for l in open(os.path.join(HERE, "properties.jsonl"))}
TECH = {
 "C01": "runtime monitor: API-wrapper oracle vs label-keyed exact reference (tagged values, dyadics, reals, NaN taint) on exhaustive operand-pair enumeration",
 "C02": "runtime monitor: exact rational reference balance per process vs observed raise/warn outcome on generated systems with single-entry perturbations",
 "C03": "runtime monitor: conservation oracle on every compute() plus perturbation probes of check_stock_balance",
 "C04": "relational runtime monitor: permutation shadow runs of the real code in every storage order",
 "C05": "runtime monitor: API-wrapper oracle on every assignment vs evolving label-keyed model; failure atomicity; copy probe",
 "C06": "runtime monitor: API-wrapper oracle with independent key-form model on exhaustive selector-kind assignments",
 "C07": "runtime monitor: API-wrapper oracle vs label-keyed marginals/broadcasts on exhaustive kept/summed/cast enumerations",
 "C08": "runtime monitor: invariants + closed-form reference survival tables on every sf/pdf read",
 "C09": "runtime monitor: cohort-table conservation oracle after every DSM compute()",
 "C10": "relational runtime monitor: inverse-model and other-solver shadow runs with condition-scaled tolerance",
 "C11": "runtime monitor: reference frame reader / unique cell values on to_df and from_df across layouts and permutations",
 "C12": "runtime monitor with fault injection: fault-aware accept/reject oracle over injected data faults x flag combinations",
 "C13": "global invariant monitor on every wrapper exit + pool scan over random programs with ill-formed steps",
 "C14": "runtime monitor: lock-step ordered-list model + independence probes on every DimensionSet call",
 "C15": "global input-snapshot monitor + write-through/shares-memory probes on results",
 "C16": "relational runtime monitor: truncation, superposition, label-slice, shift and impulse shadow runs",
 "C17": "history monitor: fresh-twin shadow after every compute() in re-parameterisation histories",
 "C18": "runtime monitor: attribute-by-attribute comparison of built systems/files against generated definitions",
 "C19": "runtime monitor: export content vs system snapshot, re-import, audit-hook file events",
 "C20": "runtime monitor: figure data (links / traces / lines) vs label-keyed reference",
}
checks = []
na = []
for pid in sorted(props):
    path = os.path.join(HERE, "vmon", "checks", pid.lower() + ".py")
    if not os.path.exists(path):
        na.append({"property_id": pid, "reason": "check not built yet in this session (planned, see DESIGN.md section 5); nothing is claimed"})
        continue
    src = open(path).read()
    level = re.search(r'^LEVEL = "(\w+)"', src, re.M).group(1)
    checks.append({
        "property_id": pid,
        "quick_cmd": f"./vcheck {pid} quick",
        "thorough_cmd": f"./vcheck {pid} thorough",
        "evidence_file": f"evidence/{pid}.json",
        "replay_cmd_template": f"./vcheck {pid} --replay {{path}}",
        "engine": "vmon",
        "level_claimed": {"category": level,
            "text": "Held on the executions listed in the evidence file: every judged event is an oracle evaluation on the real code; the named finite sub-spaces are enumerated completely, the rest is seeded random workload. Not a proof.",
            "design_ref": f"DESIGN.md section 5 ({pid})"},
        "level_note": "trusted base: CPython, numpy, pandas, scipy and the reference models in vmon/model.py; says nothing about configurations the workload never produced",
        "technique": TECH[pid],
    })
m = {
 "version": 1,
 "setup_cmd": "./vcheck --setup",
 "hooks": {"guard": "FLODYM_VERIF", "enable": "no instrumentation lives in /repo: monitors attach from outside by wrapping public API names at import time (vmon/attach.py); ./vcheck sets FLODYM_VERIF=1 only for documentation", 
           "baseline_off_cmd": "cd /repo && /venv/bin/python -m pytest -ra -q -p no:cacheprovider --timeout=900 --continue-on-collection-errors", "source_commits": [], "add_only": True},
 "engines": [{"name": "vmon", "path": "vmon/", "serves_properties": [c["property_id"] for c in checks], "kind_free_text": "runtime monitors (API wrappers, reference-model oracles, shadow runs, fault injection) driven by generated workloads"}],
 "checks": checks,
 "not_applicable": na,
 "notes": "exit 0 held / exit 1 + VIOLATION line / exit 2 + INCONCLUSIVE line (never folded into held). Genuine defects found are repaired by fix: commits in /repo and listed in known_findings.json.",
}
json.dump(m, open(os.path.join(HERE, "MANIFEST.json"), "w"), indent=1)
print("checks:", [c["property_id"] for c in checks], "n/a:", len(na))
