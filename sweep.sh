#!/bin/sh
# ./sweep.sh <tier> <seeds...> : run every check for the given tier and seeds, print one line per run
TIER="$1"; shift
for S in "$@"; do
  for P in C01 C02 C03 C04 C05 C06 C07 C08 C09 C10 C11 C12 C13 C14 C15 C16 C17 C18 C19 C20; do
    T0=$(date +%s)
    OUT=$(VERIF_SEED=$S VMON_OUT="${VMON_OUT:-/tmp/vmon-sweep-out}" ./vcheck $P $TIER 2>&1); RC=$?
    T1=$(date +%s)
    echo "seed=$S $P $TIER rc=$RC $((T1-T0))s $(echo "$OUT" | grep -c '^VIOLATION') violations $(echo "$OUT" | grep -c '^KNOWN') known"
    if [ $RC -ne 0 ]; then echo "$OUT" | grep -A2 '^VIOLATION\|^INCONCLUSIVE' | cut -c1-700; fi
  done
done
